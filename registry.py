"""Harness registry: which Kani harnesses decide which property, with bounds.
Each property has `groups` (a harness crate + feature set) of harness entries:
  name, tier (quick|thorough), role (main|witness), timeout (s), mem_gb, cost (s, for scheduling),
  bounds (text), asserts (text), recursion_bounds {pretty-name-regex: n}, cbmc_args, kani_args
"""

FMT_STUB = "alloc::fmt::format -> empty String (error messages are not part of any property; error variants are preserved)"

def H(name, tier="quick", **kw):
    d = {"name": name, "tier": tier}
    d.update(kw)
    return d

PROPS = {}

# ------------------------------------------------------------------ C10
_names = ["unique", "wellknown", "busname", "interface", "error", "member", "property", "objpath"]
PROPS["C10"] = {
    "bounds": "every byte string of length 0..=4 (all 2^32 contents, UTF-8 checked by the real core::str::from_utf8) "
              "and every ASCII string of length 0..=6 per type; TryFrom<Value> route with ASCII strings 0..=4",
    "outside": "strings longer than 6 bytes (incl. the 255-byte limit, decided separately by the length harnesses), "
               "Deserialize route goes through the same try_from (read, not encoded)",
    "assumptions": [
        FMT_STUB,
        "reference recognisers in kani/names/src/refmodel.rs are the specification (validated natively against the repo's documented examples on every run)",
        "UniqueName additionally accepts the literal 'org.freedesktop.DBus' (documented zbus exception, encoded in the model)",
        "results of try_from are mem::forget-ed in the harness (drop glue of zvariant::Error is not part of the property)",
    ],
    "groups": [{
        "crate": "kani/names", "selftest": True,
        "harnesses":
            [H("c10_%s_str4" % n, "quick", timeout=600, cost=70,
               bounds="[u8;4] symbolic, len 0..=4 symbolic, from_utf8 real, unwind 8",
               asserts="try_from(&str).is_ok() == spec recogniser") for n in _names] +
            [H("c10_%s_ascii6" % n, "thorough", timeout=1800, cost=300,
               bounds="[u8;6] symbolic ASCII, len 0..=6 symbolic, unwind 9",
               asserts="try_from(&str).is_ok() == spec recogniser") for n in _names if n != "property"] +
            [H("c10_%s_value4" % n, "quick", timeout=600, cost=70, role=("main" if n == "busname" else "witness"),
               bounds="Value::Str of [u8;4] symbolic ASCII, len 0..=4, unwind 7",
               asserts="TryFrom<Value>.is_ok() == spec recogniser") for n in _names if n != "objpath"],
    }],
}

# ------------------------------------------------------------------ manifest-level data
HOOKS = {
    "guard": "cfg(kani)",
    "enable": "set automatically by the Kani compiler (`cargo kani` passes --cfg kani); normal cargo builds never set it, so the guarded "
              "`#[cfg(kani)] #[path = \"/verif/in_crate/<crate>.rs\"] mod verif_kani;` lines compile to nothing",
    "baseline_off_cmd": "cd /repo && cargo test --workspace --no-fail-fast --offline",
    "source_commits": [],
    "add_only": True,
}

NOT_APPLICABLE = {
    "C18": "concurrent sends never interleave: a property of the socket_write mutex under real task interleavings; Kani/CBMC do not model async task concurrency and the send path is behind `tracing` (Kani ICE); no sequential kernel captures it",
    "C19": "method call/reply matching: depends on async-broadcast channels, event-listener, executor tasks and timers under arbitrary schedules; not encodable for a bounded model checker of sequential Rust",
    "C20": "message streams deliver once, in order: subscription map behind async_lock::Mutex, broadcast back-pressure and drop-time tasks; schedule/history quantifier over heap-rich concurrent state",
    "C24": "object server registry: ObjectServer::at/remove need a live Connection; Node tree is HashMap<String,Node> + Arc<RwLock<dyn Interface>> (SipHash on symbolic keys does not terminate in the SAT solver) and histories are unbounded",
    "C25": "ObjectManager signals: as C24 plus signal emission over a live connection",
    "C26": "method dispatch: quantifier over generated programs (proc-macro output) + async dispatch over a connection; cannot be encoded",
    "C27": "introspection XML: pure core::fmt string building and quick-xml parsing over unbounded text, quantifier over generated programs",
    "C28": "Properties interface: needs object server + connection + signal emission; programs x histories",
    "C29": "non-spawning interfaces run calls in order: scheduling property of the executor",
    "C30": "no deadlock / lost wake-up in handlers: liveness under schedules; not a bounded safety assertion over sequential code",
    "C31": "proxy property cache: PropertiesCache lives behind async locks, HashMap<String,..>, joined ordered streams and a background task",
    "C32": "signal stream owner tracking: SignalStream::filter is private to a type only constructible from a live Connection/Proxy",
    "C33": "generated proxies and interfaces agree: programs quantifier + full client/server stack",
    "C34": "XML model round trip: quick-xml + serde over unbounded strings; symbolic execution of the tokenizer is out of reach at any useful bound",
    "C35": "feature combinations build: a property of cargo check, not of executable code; there is no symbolic input",
    "C36": "name bookkeeping: state in Mutex<HashMap<WellKnownName,NameStatus>> updated by spawned monitor tasks reacting to bus signals",
    "C37": "bus match registrations: refcount map + async AddMatch/RemoveMatch calls + deferred drops; histories under schedules",
    "C38": "transport failures end pending work: about tasks and channels; only the per-read failure part is sequential (covered in C14 where claimed)",
    "C39": "drop / graceful shutdown: lifetime of Arcs across tasks, peer-visible close, executor draining",
}

PROPS["C10"].update({
    "level_text": "Bounded model checking of the real validators (winnow parsers in zbus_names / zvariant::ObjectPath) compiled by Kani: "
                  "for every byte string up to the stated length the solver proves acceptance equals an independent spec recogniser, "
                  "on every construction route harnessed. Tests sample a handful of names; here all 2^32 4-byte strings (and all 6-byte ASCII strings) are decided.",
    "level_note": "bounded (strings <= 4 bytes arbitrary, <= 6 bytes ASCII; 255-byte limit by separate fixed-shape harnesses); trusts Kani/CBMC, the format! stub, and the reference recognisers (validated natively against the repo's examples each run)",
})

# ------------------------------------------------------------------ shared
REC1 = {r"std::ptr::drop_glue::<[\w:]*Signature>": 1, r"<[\w:]*Signature as std::clone::Clone>::clone": 1}
CLOSE_STUB = "<OwnedFd as Drop>::drop -> no-op (environment: close(2) and std's debug fcntl probe)"
ZV = {"crate": "kani/zv", "selftest": True}
ZV_INCRATE = {"crate": "/repo/zvariant", "in_repo": True, "in_crate_file": "zvariant.rs", "target": "zvariant-incrate"}
ZV_INCRATE_GV = dict(ZV_INCRATE, features=["gvariant"], target="zvariant-incrate-gv")

LEAF_BOUNDS = "value fully symbolic; message offset 0..15 symbolic; byte order symbolic; unwind 9"

# ------------------------------------------------------------------ C01
PROPS["C01"] = {
    "claimed": False,
    "groups": [
        dict(ZV, harnesses=
             [H("c01_enc_%s" % t, "quick" if t in "ut" else "thorough", timeout=900, cost=90, recursion_bounds=REC1, bounds=LEAF_BOUNDS,
                asserts="to_writer_for_signature bytes and length == independent spec marshaller") for t in "ybnqiuxtd"] +
             [H("c01_enc_%s" % t, "quick" if t == "s" else "thorough", timeout=900, cost=150, recursion_bounds=REC1,
                bounds="text 0..=3 symbolic ASCII bytes; offset 0..15; byte order symbolic; unwind 9",
                asserts="bytes and length == spec marshaller (u32 length, text, NUL)") for t in "so"] +
             [H("c01_size_%s" % t, "quick" if t in "u" else "thorough", timeout=900, cost=60, recursion_bounds=REC1, bounds=LEAF_BOUNDS,
                asserts="serialized_size().size() == bytes the rules prescribe; num_fds == 0") for t in "yqutb"]),
        dict(ZV_INCRATE, harnesses=[
            H("c01_padding_kernel", "quick", timeout=300, cost=10, bounds="value: every usize; align in {1,2,4,8}",
              asserts="padding_for_n_bytes(value, align) == (-value) mod align"),
        ]),
    ],
}

# ------------------------------------------------------------------ C03
PROPS["C03"] = {
    "claimed": False,
    "groups": [
        dict(ZV, harnesses=
             [H("c03_dec_%s" % t, "quick" if t in "ub" else "thorough", timeout=900, cost=60, recursion_bounds=REC1,
                bounds="16 symbolic bytes, length 0..=16 symbolic, offset 0..7, byte order symbolic, unwind 9",
                asserts="Ok iff the spec reader accepts; equal value and consumed count") for t in "ynqiuxtdb"] +
             [H("c03_dec_%s" % t, "quick" if t == "s" else "thorough", timeout=1500, cost=200, recursion_bounds=REC1,
                bounds="10 symbolic bytes, length 0..=10 symbolic, offset 0..3, byte order symbolic, unwind 12",
                asserts="Ok iff the spec reader accepts (zero padding, length inside buffer, NUL terminator, no interior NUL, UTF-8, path grammar); equal text and consumed count") for t in "so"]),
    ],
}

# ------------------------------------------------------------------ probes (not claimed)
SIG_REC = {
    r"std::ptr::drop_glue::<zvariant::Signature>": 2,
    r"<zvariant::Signature as std::clone::Clone>::clone": 2,
}
REC1 = {r"std::ptr::drop_glue::<[\w:]*Signature>": 1, r"<[\w:]*Signature as std::clone::Clone>::clone": 1}
PROPS["PROBE"] = {"claimed": False, "groups": [{"crate": "kani/zv", "harnesses": [
    H("p_enc_u32", timeout=900, recursion_bounds=REC1),
    H("p_enc_yu", timeout=900, recursion_bounds=REC1),
    H("p_dec_yu", timeout=900, recursion_bounds=REC1),
]}]}

# ------------------------------------------------------------------ C07
PROPS["C07"] = {
    "claimed": False,
    "groups": [dict(ZV_INCRATE, harnesses=[
        H("c07_depths_step", timeout=900, cost=120,
          bounds="every reachable counter state (s<=32, a<=32, v<=64, sum<=64), one inc/dec step of each kind, unwind 66",
          asserts="inc_* errs exactly when the limit is exceeded with the documented kind; dec_* inverts inc_*; no u8 overflow"),
    ])],
}
REC1 = {r"std::ptr::drop_glue::<[\w:]*Signature>": 1, r"<[\w:]*Signature as std::clone::Clone>::clone": 1}
PROPS["PROBE2"] = {"claimed": False, "groups": [{"crate": "kani/zv", "harnesses": [
    H("q_a", timeout=400, recursion_bounds=REC1), H("q_b", timeout=400, recursion_bounds=REC1), H("q_c", timeout=400, recursion_bounds=REC1)]}]}
PROPS["PROBE3"] = {"claimed": False, "groups": [dict(ZV_INCRATE, features=["gvariant"], target="zvariant-incrate-gv", harnesses=[
    H("c01_padding_kernel", timeout=300), H("c05_offset_size_selection", timeout=300),
    H("c05_offset_write_read_inverse", timeout=300), H("c04_framing_offsets_decode_total", timeout=600)])]}
PROPS["PROBE4"] = {"claimed": False, "groups": [{"crate": "kani/zv", "harnesses": [
    H("r1", timeout=500, recursion_bounds=REC1), H("r2", timeout=500, recursion_bounds=REC1),
    H("r3", timeout=500, recursion_bounds=REC1), H("r4", timeout=500, recursion_bounds=REC1)]}]}
PROPS["PROBE5"] = {"claimed": False, "groups": [{"crate": "kani/zv", "harnesses": [
    H("r1", timeout=600, recursion_bounds=REC1, kani_args=["--no-default-checks"]),
    H("r3", timeout=600, recursion_bounds=REC1, kani_args=["--no-default-checks"])]}]}
PROPS["PROBE6"] = {"claimed": False, "groups": [{"crate": "kani/sig", "harnesses": [
    H("c06_validate_len2", timeout=3000, mem_gb=24), H("c06_validate_len3", timeout=3000, mem_gb=24)]}]}

# ------------------------------------------------------------------ C15
ZB_INCRATE = {"crate": "/repo/zbus", "in_repo": True, "target": "zbus-incrate"}
PROPS["C15"] = {
    "claimed": False,
    "groups": [dict(ZB_INCRATE, in_crate_file="zbus_header.rs", harnesses=[
        H("c15_serial_step", timeout=900, cost=60, bounds="counter state: every u32 (incl. 0 and u32::MAX); two consecutive PrimaryHeader::new calls",
          asserts="serial != 0; serial == c (or 1 when c == 0); counter advances exactly; consecutive serials differ"),
        H("c15_serial_three_distinct", timeout=900, cost=60, bounds="counter state: every u32; three consecutive calls",
          asserts="pairwise distinct, non-zero"),
    ])],
}
