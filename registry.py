"""Harness registry: which Kani harnesses decide which property, with bounds.
Each property has `groups` (a harness crate + feature set) of harness entries:
  name, tier (quick|thorough), role (main|witness), timeout (s), mem_gb, cost (s, for scheduling),
  bounds (text), asserts (text), recursion_bounds {pretty-name-regex: n}, cbmc_args, kani_args
"""

FMT_STUB = "alloc::fmt::format -> empty String (error messages are not part of any property; error variants are preserved)"
CLOSE_STUB = "<OwnedFd as Drop>::drop -> no-op (environment: close(2) and std's debug fcntl probe that formats to stderr)"
FORGET = "results are inspected by reference and mem::forget-ed in the harness (the recursive drop glue of zvariant::Error/Signature is not part of any property)"
RECB = "recursion of drop_glue::<Signature>/Signature::clone bounded by --unwindset (1 or 2); the generated recursion unwinding assertions must hold for a harness to count"


def H(name, tier="quick", **kw):
    d = {"name": name, "tier": tier}
    d.update(kw)
    return d


REC1 = {r"std::ptr::drop_glue::<[\w:]*Signature>": 1, r"<[\w:]*Signature as std::clone::Clone>::clone": 1}
ZV = {"crate": "kani/zv", "selftest": True}
ZV_GV = {"crate": "kani/zv", "features": ["gvariant"], "target": "zv-gv"}
ZV_INCRATE = {"crate": "/repo/zvariant", "in_repo": True, "in_crate_file": "zvariant.rs", "target": "zvariant-incrate"}
ZV_INCRATE_GV = dict(ZV_INCRATE, features=["gvariant"], target="zvariant-incrate-gv")
ZB_INCRATE = {"crate": "/repo/zbus", "in_repo": True, "target": "zbus-incrate"}
LEAF_BOUNDS = "value fully symbolic; message offset 0..15 symbolic; byte order symbolic; unwind 9"

PROPS = {}

# ------------------------------------------------------------------ C01
PROPS["C01"] = {
    "bounds": "leaf signatures y b n q i u x t d (every value), s o (text of 0..=3 ASCII bytes, plus 2-byte UTF-8 scalars) at every message offset 0..15 and both byte orders, "
              "through the public to_writer_for_signature / serialized_size; arrays ay aq au at with 0/1/2 elements at offsets 0/3/4; ah with two descriptors; struct (yu) at offsets 0/5; padding kernel for every usize and alignment 1/2/4/8",
    "outside": "dicts, variants, arrays of structs, nested containers, dict-encoded structs (do not fit, DESIGN.md 9.5); strings longer than 3 bytes; 4-byte UTF-8 scalars; 3-byte scalars other than the fixed U+20AC cell",
    "assumptions": [FMT_STUB, CLOSE_STUB, FORGET, RECB,
                    "reference marshaller kani/zv/src/refmodel/dbus.rs is the specification (validated natively against spec examples and the real encoder on every run)"],
    "level_text": "Bounded model checking of the real serializer compiled by Kani: for every value of each leaf type, every message offset 0..15 and both byte "
                  "orders, CBMC proves the produced bytes equal an independent spec marshaller and that the size pass agrees; arrays of fixed-size elements, descriptor arrays and one struct shape are decided per (offset, element count) cell. Tests sample a few values at offset 0.",
    "level_note": "bounded: leaf signatures at every offset, arrays of fixed-size elements and one struct shape per (offset, count) cell; other containers are outside the claim (evidence.coverage.outside_claim); trusts Kani/CBMC, the stubs listed in assumptions and the reference marshaller",
    "groups": [
        dict(ZV, harnesses=
             [H("c01_enc_%s" % t, "quick" if t in "ut" else "thorough", timeout=2400, cost=90, recursion_bounds=REC1, bounds=LEAF_BOUNDS,
                asserts="to_writer_for_signature bytes and length == independent spec marshaller") for t in "ybnqiuxtd"] +
             [H("c01_enc_%s" % t, "quick" if t == "s" else "thorough", timeout=1500, cost=150, recursion_bounds=REC1,
                bounds="text 0..=3 symbolic ASCII bytes; offset 0..15; byte order symbolic; unwind 9",
                asserts="bytes and length == spec marshaller (u32 length, text, NUL)") for t in "so"] +
             [H("c01_enc_s_utf8_%s" % e, "quick" if e == "le" else "thorough", timeout=1500, cost=120, recursion_bounds=REC1,
                bounds="text = one symbolic 2-byte UTF-8 scalar (U+0080..U+07FF) optionally followed by an ASCII byte; %s-endian cell" % e,
                asserts="bytes and length == spec marshaller (the length prefix counts bytes)") for e in ("le", "be")] +
             [H("c01_enc_s_utf8_fixed%d" % n, "quick" if n == 2 else "thorough", timeout=1500, cost=120, recursion_bounds=REC1,
                bounds="text = the fixed %d-byte UTF-8 scalar %s; message offset 0..15 and byte order symbolic" % (n, "U+00E9" if n == 2 else "U+20AC"),
                asserts="bytes and length == spec marshaller (the length prefix counts bytes, also for 3-byte scalars)") for n in (2, 3)] +
             [H("c01_size_%s" % t, "quick" if t in "u" else "thorough", timeout=1800, cost=60, recursion_bounds=REC1, bounds=LEAF_BOUNDS,
                asserts="serialized_size().size() == bytes the rules prescribe; num_fds == 0") for t in "yqutb"] +
             [H("c01_enc_a%s_p%d_k%d" % (t, p, k), "quick" if (t, p, k) in (("t", 4, 1), ("y", 3, 2)) else "thorough", timeout=2400, cost=400, recursion_bounds=REC1, mem_gb=16,
                bounds="array a%s of %d symbolic element(s) at message offset %d, byte order symbolic" % (t, k, p),
                asserts="bytes and length == spec marshaller (aligned u32 byte length excluding first-element padding, element padding even when empty, elements)")
              for t in "yqut" for p in (0, 3, 4) for k in (0, 1, 2)] +
             [H(n, "thorough", timeout=2400, cost=400, recursion_bounds=REC1, mem_gb=16,
                bounds="array `ah` of two descriptors (same or distinct, symbolic), byte order symbolic, offset as named; dup(2) stubbed",
                asserts="indices are u32 positions in the attached list in message byte order; duplicates share one slot; attached count")
              for n in ["c01_enc_ah_p0", "c01_enc_ah_p2", "c01_enc_ah_p0_le", "c01_enc_ah_p0_be"]] +
             [H(n, "thorough", timeout=2400, cost=700, recursion_bounds=REC1, mem_gb=24, rss_gb=14,
                bounds="struct (yu) with symbolic fields, byte order symbolic, message offset as named",
                asserts="bytes and length == spec marshaller (8-byte struct alignment, member alignment)")
              for n in ["c01_enc_yu_p0", "c01_enc_yu_p5"]]),
        dict(ZV_INCRATE, harnesses=[
            H("c01_padding_kernel", "quick", timeout=300, cost=10, bounds="value: every usize; align in {1,2,4,8}",
              asserts="padding_for_n_bytes(value, align) == (-value) mod align"),
        ]),
    ],
}

# ------------------------------------------------------------------ C02
PROPS["C02"] = {
    "bounds": "numeric leaf signatures y b n q i u x t d (every value), D-Bus and GVariant, message offsets 0..7, both byte orders; strings of exactly 0, 1 and 3 symbolic ASCII bytes in both formats (one cell per length x byte order)",
    "outside": "strings longer than 3 bytes / non-ASCII text, containers, HashMap, Option/maybe, derived structs/enums, Value/OwnedValue (container decoding does not fit, DESIGN.md 9.5)",
    "assumptions": [FMT_STUB, CLOSE_STUB, FORGET, RECB],
    "level_text": "Bounded model checking of encode followed by decode on the compiled code: for every value of each leaf type, offset and byte order the solver proves the decoded value equals the original and the decoder consumed exactly the encoded length, in both wire formats.",
    "level_note": "bounded to leaf signatures; trusts Kani/CBMC and the stubs listed in assumptions",
    "groups": [
        dict(ZV, harnesses=
             [H("c02_rt_dbus_%s" % t, "quick" if t in "ud" else "thorough", timeout=1500, cost=200, recursion_bounds=REC1,
                bounds="value symbolic; offset 0..7; byte order symbolic; 16-byte buffer",
                asserts="decode(encode(v)) == v (bitwise for f64) and consumed == encoded length") for t in "ybnqiuxtd"] +
             [H("c02_rt_dbus_%s" % t, "quick" if t == "f32" else "thorough", timeout=1500, cost=200, recursion_bounds=REC1,
                bounds="Rust %s (every value incl. MIN/MAX, infinities, NaN) encoded under its D-Bus stand-in type; offset 0..7; byte order symbolic" % t,
                asserts="decode(encode(v)) == v (NaN stays NaN) and consumed == encoded length") for t in ("f32", "i8")] +
             [H("c02_rt_dbus_s_n%d_%s" % (n, e), "quick" if (n, e) == (3, "be") else "thorough", timeout=1800, cost=100, recursion_bounds=REC1, mem_gb=16,
                bounds="text of exactly %d symbolic ASCII byte(s); message offset %d; %s-endian (concrete per cell); from_utf8/memchr byte-loop stubs" % (n, {0: 0, 1: 3, 3: 1}[n], e),
                asserts="round trip text and consumed length") for n in (0, 1, 3) for e in ("le", "be")]),
        dict(ZV_GV, harnesses=
             [H("c02_rt_gv_%s" % t, "quick" if t in "u" else "thorough", timeout=1500, cost=200, recursion_bounds=REC1,
                bounds="GVariant; value symbolic; offset 0..7; byte order symbolic",
                asserts="decode(encode(v)) == v and consumed == encoded length") for t in "ybqutd"] +
             [H("c02_rt_gv_s_n%d_%s" % (n, e), "quick" if (n, e) == (0, "le") else "thorough", timeout=1800, cost=100, recursion_bounds=REC1, mem_gb=16,
                bounds="GVariant; text of exactly %d symbolic ASCII byte(s); message offset %d; %s-endian (concrete per cell); from_utf8/memchr byte-loop stubs" % (n, {0: 0, 1: 3, 3: 1}[n], e),
                asserts="round trip text and consumed length") for n in (0, 1, 3) for e in ("le", "be")]),
    ],
}

# ------------------------------------------------------------------ C03
PROPS["C03"] = {
    "bounds": "fixed-size leaf signatures on 16 arbitrary bytes (length 0..=16, offset 0..7, both byte orders); strings on 8 arbitrary bytes per offset 0..3; struct (yu) on 8/11 arbitrary bytes at offsets 0 and 5, each byte order; arrays ay aq au at on 6..14 arbitrary bytes (cells: offset x byte order)",
    "outside": "object paths through bytes (typed ObjectPath decode of 7 symbolic bytes times out at 1500 s; the grammar itself is C10), arrays of containers, structs other than the (yu) cells, dicts, variants, the dynamic Value target (ValueSeed path: times out at 1500 s even for leaf signatures), depth limits through bytes (do not fit, DESIGN.md 9.5); strings longer than 3 bytes",
    "assumptions": [FMT_STUB, CLOSE_STUB, FORGET, RECB],
    "level_text": "Bounded model checking of the real D-Bus deserializer on fully symbolic input buffers against an independent validating reader written from the specification: acceptance, decoded value and consumed count must agree for every byte string within the bound (zero padding, BOOLEAN 0/1, string length inside the buffer, NUL terminator, interior NUL, UTF-8).",
    "level_note": "bounded: leaf signatures, strings <= 3 bytes, struct (yu) and arrays of fixed-size elements per (offset, byte order) cell; core::str::from_utf8 and memchr are replaced by byte-loop specifications in the text harnesses (trusted equivalence, checked natively on every run)",
    "groups": [
        dict(ZV, harnesses=
             [H("c03_dec_%s" % t, "quick" if t in "ub" else "thorough", timeout=1800, cost=60, recursion_bounds=REC1,
                bounds="16 symbolic bytes, length 0..=16 symbolic, offset 0..7, byte order symbolic, unwind 9",
                asserts="Ok iff the spec reader accepts; equal value and consumed count") for t in "ynqiuxtdb"] +
             [H("c03_dec_%s_p%d" % (t, p), "quick" if (t, p) in (("s", 0), ("s", 3), ("o", 1)) else "thorough", timeout=1500, cost=200, recursion_bounds=REC1, mem_gb=14,
                bounds="8 symbolic bytes, length 0..=8 symbolic, message offset %d, byte order symbolic, unwind 10; core::str::from_utf8 and memchr replaced by byte-loop specifications" % p,
                asserts="Ok iff the spec reader accepts (zero padding, length inside buffer, NUL terminator, no interior NUL, UTF-8, path grammar); equal text and consumed count") for (t, p) in [("s", 0), ("s", 1), ("s", 2), ("s", 3)]] +

             [H("c03_dec_yu_p%d_%s" % (p, e), "thorough", timeout=2400, cost=300, recursion_bounds=REC1, mem_gb=20, rss_gb=12,
                bounds="struct (yu) on %d arbitrary bytes at message offset %d, %s-endian (byte order concrete per cell)" % (8 if p == 0 else 11, p, "big" if e == "be" else "little"),
                asserts="Ok iff zero struct padding and zero member padding; fields and consumed count equal the wire") for p in (0, 5) for e in ("le", "be")] +
             [H("c03_dec_%s_%s" % (c, e), "quick" if (c, e) == ("au_p0", "le") else "thorough", timeout=2400, cost=500, recursion_bounds=REC1, mem_gb=24, rss_gb=18,
                bounds="array cell %s on a fully symbolic buffer (exact length 6..14 bytes), %s-endian (byte order and offset concrete per cell)" % (c, "big" if e == "be" else "little"),
                asserts="Ok iff zero padding (also before the first element when empty), byte length inside the buffer and on an element boundary; equal count, elements, consumed")
              for c in ("ay_p0", "ay_p3", "aq_p0", "au_p0", "au_p2", "at_p4") for e in ("le", "be")]),
    ],
}

# ------------------------------------------------------------------ C04
PROPS["C04"] = {
    "bounds": "GVariant typed decode of leaf signatures and strings on 4..12 arbitrary bytes; framing-offset table decode on 0..=6 arbitrary bytes; every C03 harness is also a no-panic proof for the D-Bus typed leaf decoders",
    "outside": "containers; the dynamic Value target (does not fit); the option-as-array build; re-encoding of decoded values; stack depth (rests on C07)",
    "assumptions": [FMT_STUB, CLOSE_STUB, FORGET, RECB],
    "level_text": "Kani's own checks (panic, unwrap/expect, unreachable!, arithmetic overflow, out-of-bounds indexing and slicing, failed assert!) on the real decoders for every input within the bound, plus 'never reports more bytes consumed than the input holds'.",
    "level_note": "bounded to leaf signatures and the framing-offset kernel",
    "groups": [
        dict(ZV_GV, harnesses=
             [H("c04_gv_dec_%s" % t, "quick" if t in "us" else "thorough", timeout=1200, cost=120, recursion_bounds=REC1, mem_gb=16,
                bounds="GVariant, arbitrary bytes (4..12), length symbolic, offset 0..7, byte order symbolic",
                asserts="no panic/overflow/out-of-bounds; consumed <= input length") for t in "ybqutds"]),
        dict(ZV, harnesses=[
            H("c03_dec_u", "quick", timeout=900, cost=60, recursion_bounds=REC1,
              bounds="D-Bus u on 16 arbitrary bytes, length symbolic, offset 0..7, byte order symbolic (harness shared with C03)",
              asserts="no panic/overflow/out-of-bounds (Kani checks) in the D-Bus typed decoder"),
            H("c03_dec_s_p0", "quick", timeout=1500, cost=200, recursion_bounds=REC1, mem_gb=14,
              bounds="D-Bus s on 8 arbitrary bytes, length symbolic, byte order symbolic (harness shared with C03)",
              asserts="no panic/overflow/out-of-bounds (Kani checks) in the D-Bus string decoder; consumed <= input"),
        ]),
        dict(ZV_INCRATE_GV, harnesses=[
            H("c04_framing_offsets_decode_total", "quick", timeout=900, cost=150, inline_mod="gv",
              bounds="container of 0..=6 arbitrary bytes", asserts="FramingOffsets::from_encoded_array never panics; offsets <= start of table; count consistent"),
        ]),
    ],
}

# ------------------------------------------------------------------ C05
PROPS["C05"] = {
    "bounds": "framing-offset width selection for every (len, n) with len <= 2^62, n <= 2^58 (thresholds 255/65535/2^32 decided symbolically); offset write/read for every width and representable offset; GVariant bytes of y q u t d and strings (0..=3 ASCII bytes) at offsets 0..15, both byte orders; listed finding D15 (boolean encoded as 4 bytes)",
    "outside": "GVariant containers (arrays, structs, dicts, variants, maybe types: do not fit, DESIGN.md 9.5)",
    "assumptions": [FMT_STUB, FORGET],
    "level_text": "Bounded model checking of the GVariant framing-offset kernels with fully symbolic sizes, and of the whole-API GVariant encoder on leaf types against the GVariant specification layout.",
    "level_note": "kernels + leaf types; containers outside the claim",
    "groups": [
        dict(ZV_GV, harnesses=
             [H("c05_enc_%s" % t, "quick" if t in ("u", "s", "b") else "thorough", timeout=2400, cost=300, recursion_bounds=REC1, mem_gb=16, role=("witness" if t == "b" else "main"),
                bounds="GVariant; value symbolic (text 0..=3 ASCII bytes, maybe present/absent symbolic); offset 0..15; byte order symbolic",
                asserts="bytes and length == GVariant specification layout") for t in ["y", "b", "q", "u", "t", "d", "s"]] +
             []),
        dict(ZV_INCRATE_GV, harnesses=[
            H("c05_offset_size_selection", "quick", timeout=600, cost=10, inline_mod="gv", bounds="len <= 2^62, n <= 2^58 symbolic",
              asserts="for_bare_container == smallest w in {1,2,4,8} with len + n*w <= 2^(8w)-1"),
            H("c05_offset_write_read_inverse", "quick", timeout=600, cost=10, inline_mod="gv", bounds="width symbolic, offset symbolic (representable)",
              asserts="write_offset emits exactly w little-endian bytes; read_last_offset_from_buffer inverts it"),
        ]),
    ],
}

# ------------------------------------------------------------------ C07
PROPS["C07"] = {
    "bounds": "every depth-counter state (s<=32, a<=32, v<=64, m<=64, sum<=64), one increment/decrement of every kind, D-Bus-only and GVariant builds",
    "outside": "the container entry points of the four (de)serializers: every formulation of a call-site step ran out of 20 GB (DESIGN.md 9.5), so 'each entry point calls the right inc_*/dec_*' is read, not decided",
    "assumptions": [FORGET, RECB, "symbolic counter state is written into ContainerDepths through a byte layout measured on the compiled type"],
    "level_text": "Inductive step decided by the solver: from every counter state satisfying the invariant, inc_* fails exactly when the 32/32/64 limit is exceeded (with the documented kind and precedence) and otherwise yields exactly the incremented state; dec_* inverts inc_*; no u8 overflow. Nesting histories of any length follow by induction; values 33..65 levels deep are never built.",
    "level_note": "counter algebra only; call sites outside the claim",
    "groups": [dict(ZV_INCRATE, harnesses=[
        H("c07_depths_step", timeout=900, cost=120,
          bounds="every counter state (s<=32, a<=32, v<=64, sum<=64), one inc/dec step of each kind",
          asserts="inc_* errs exactly when the limit is exceeded with the documented kind; dec_* inverts inc_*; no u8 overflow"),
    ]), dict(ZV_INCRATE_GV, harnesses=[
        H("c07_depths_step", timeout=900, cost=120,
          bounds="gvariant build (maybe counter included): every counter state, one step of each kind",
          asserts="as above, including inc_maybe/dec_maybe"),
    ])],
}

# ------------------------------------------------------------------ C08
PROPS["C08"] = {
    "bounds": "three symbolic values per numeric variant (y b n q i u x t d, every payload incl. NaN, signed zeros, infinities) and three cross-variant combinations",
    "outside": "strings longer than 2 bytes, the laws on arrays/dicts/structures (only the slice->Array conversion is decided, on one-element cells), nesting deeper than one level, OwnedValue, scalar conversions other than u32/i64/f64",
    "assumptions": [FMT_STUB, FORGET, "hashing is observed through a deterministic FNV-1a Hasher (Hash must be a function of the bytes fed to the hasher)"],
    "level_text": "Bounded model checking of Value's PartialEq / Ord / Hash / try_clone / value_signature / From / TryFrom on symbolic numeric leaves: all laws over value triples of each numeric variant (every payload; NaN, signed zeros, infinities for floats) and over three cross-variant combinations.",
    "level_note": "numeric leaves only; strings, containers and nested values outside the claim",
    "groups": [dict(ZV, harnesses=[
        H("c08_f64_triple_laws", timeout=1800, cost=150, mem_gb=16, bounds="3 symbolic f64 payloads incl. NaN, signed zeros, infinities", asserts="== equivalence (NaN-free), cmp total order for all values incl. NaN, cmp/== consistency, equal => equal hash"),
        H("c08_laws_y", "quick", timeout=1800, cost=150, mem_gb=16, bounds="3 symbolic values of variant y", asserts="== equivalence, cmp total order, consistency, equal => equal hash"),
        H("c08_laws_b", "thorough", timeout=1800, cost=150, mem_gb=16, bounds="3 symbolic values of variant b", asserts="== equivalence, cmp total order, consistency, equal => equal hash"),
        H("c08_laws_n", "thorough", timeout=1800, cost=150, mem_gb=16, bounds="3 symbolic values of variant n", asserts="== equivalence, cmp total order, consistency, equal => equal hash"),
        H("c08_laws_q", "thorough", timeout=1800, cost=150, mem_gb=16, bounds="3 symbolic values of variant q", asserts="== equivalence, cmp total order, consistency, equal => equal hash"),
        H("c08_laws_i", "thorough", timeout=1800, cost=150, mem_gb=16, bounds="3 symbolic values of variant i", asserts="== equivalence, cmp total order, consistency, equal => equal hash"),
        H("c08_laws_u", "thorough", timeout=1800, cost=150, mem_gb=16, bounds="3 symbolic values of variant u", asserts="== equivalence, cmp total order, consistency, equal => equal hash"),
        H("c08_laws_x", "quick", timeout=1800, cost=150, mem_gb=16, bounds="3 symbolic values of variant x", asserts="== equivalence, cmp total order, consistency, equal => equal hash"),
        H("c08_laws_t", "thorough", timeout=1800, cost=150, mem_gb=16, bounds="3 symbolic values of variant t", asserts="== equivalence, cmp total order, consistency, equal => equal hash"),
        H("c08_laws_y_x", "thorough", timeout=1800, cost=200, mem_gb=16, bounds="values of two different variants (y_x), all payloads, both argument orders", asserts="laws across variants (never equal, ordering antisymmetric/transitive/consistent)"),
        H("c08_laws_d_t", "thorough", timeout=1800, cost=200, mem_gb=16, bounds="values of two different variants (d_t), all payloads, both argument orders", asserts="laws across variants (never equal, ordering antisymmetric/transitive/consistent)"),
        H("c08_laws_u_d", "quick", timeout=1800, cost=200, mem_gb=16, bounds="values of two different variants (u_d), all payloads, both argument orders", asserts="laws across variants (never equal, ordering antisymmetric/transitive/consistent)"),
        H("c08_laws_s", "thorough", timeout=1800, cost=200, mem_gb=16, bounds="three Value::Str of 0..=2 symbolic ASCII bytes", asserts="all laws on strings"),
        H("c08_laws_s_o", "thorough", timeout=1800, cost=200, mem_gb=16, bounds="Value::Str vs Value::ObjectPath of 0..=2 symbolic bytes", asserts="never equal; ordering laws"),
        H("c08_laws_nested_u", "thorough", timeout=1800, cost=200, mem_gb=16, bounds="three Value::Value(Value::U32), every payload", asserts="all laws one level deep; signature is 'v'"),
        H("c08_clone_y", "thorough", timeout=1800, cost=150, mem_gb=16, bounds="Value::U8, every payload", asserts="try_clone preserves == and signature; value_signature == variant's signature"),
        H("c08_clone_x", "thorough", timeout=1800, cost=150, mem_gb=16, bounds="Value::I64, every payload", asserts="as above"),
        H("c08_clone_d", "thorough", timeout=1800, cost=150, mem_gb=16, bounds="Value::F64, every non-NaN payload", asserts="as above"),
        H("c08_conversions", "thorough", timeout=1800, cost=150, mem_gb=16, bounds="every u32 / i64 / f64", asserts="T -> Value -> T identity; wrong target type refused"),
        H("c08_array_from_slice_cell", "quick", timeout=1500, cost=60, mem_gb=16, bounds="one-element arrays built from &[Value::U8(x)] and &[x], every x", asserts="element signature v / y; elements of an av array are Value::Value wrapping the original, of an ay array bare U8"),
        H("c08_leaf_laws_nan_witness", timeout=900, cost=60, role="witness", bounds="F64(NaN), any NaN payload", asserts="reflexivity and cmp/== consistency (listed finding D7)"),
    ])],
}

# ------------------------------------------------------------------ C10
_names = ["unique", "wellknown", "busname", "interface", "error", "member", "property", "objpath"]
PROPS["C10"] = {
    "bounds": "every byte string of length 0..=4 (all 2^32 contents, UTF-8 checked by the real core::str::from_utf8) "
              "and every ASCII string of length 0..=6 per type; TryFrom<Value> route with ASCII strings 0..=4",
    "outside": "strings longer than 6 bytes (the 255-byte limit is decided for MemberName/PropertyName only; the dotted-name parsers do not fit at 255 bytes), GUID strings other than the harnessed shapes",
    "assumptions": [
        FMT_STUB, FORGET,
        "reference recognisers in kani/names/src/refmodel.rs are the specification (validated natively against the repo's documented examples on every run)",
        "UniqueName additionally accepts the literal 'org.freedesktop.DBus' (documented zbus exception, encoded in the model)",
    ],
    "level_text": "Bounded model checking of the real validators (winnow parsers in zbus_names / zvariant::ObjectPath) compiled by Kani: "
                  "for every byte string up to the stated length the solver proves acceptance equals an independent spec recogniser, "
                  "on every construction route harnessed. Tests sample a handful of names; here all 2^32 4-byte strings (and all 6-byte ASCII strings) are decided.",
    "level_note": "bounded (strings <= 4 bytes arbitrary, <= 6 bytes ASCII); trusts Kani/CBMC, the format! stub, and the reference recognisers (validated natively against the repo's examples each run)",
    "groups": [dict(ZB_INCRATE, in_crate_file="zbus_address.rs", harnesses=[
        H("c10_guid_plain", "quick", timeout=2400, cost=120, mem_gb=20, inline_mod="guid_c10",
          bounds="31..=33 byte strings with four fully symbolic ASCII positions (first, two inner, last), other positions fixed hex digits",
          asserts="Guid::try_from accepts iff exactly 32 hexadecimal digits"),
        H("c10_guid_uuid_forms", "quick", timeout=2400, cost=30, mem_gb=20, inline_mod="guid_c10",
          bounds="hyphenated, braced and urn:uuid: forms (symbolic choice)", asserts="rejected"),
    ]), {
        "crate": "kani/names", "selftest": True,
        "harnesses":
            [H("c10_%s_str4" % n, "quick", timeout=900, cost=70,
               bounds="[u8;4] symbolic, len 0..=4 symbolic, from_utf8 real, unwind 8",
               asserts="try_from(&str).is_ok() == spec recogniser") for n in _names] +
            [H("c10_%s_ascii6" % n, "thorough", timeout=2400, cost=300,
               bounds="[u8;6] symbolic ASCII, len 0..=6 symbolic, unwind 9",
               asserts="try_from(&str).is_ok() == spec recogniser") for n in _names if n != "property"] +
            [H("c10_%s_len255" % n, "thorough", timeout=2400, cost=400, mem_gb=16,
               bounds="concrete valid content, length symbolic in {255, 256}, unwind 262",
               asserts="accepted iff length <= 255") for n in ["member", "property"]] +

            [H("c10_unique_dbus_suffix", "thorough", timeout=2400, cost=300, mem_gb=16,
               bounds="'org.freedesktop.DBus' followed by 0..=2 symbolic ASCII bytes (20..=22 bytes)",
               asserts="UniqueName accepts exactly the literal bus name among these")] +
            [H("c10_%s_value4" % n, "quick", timeout=900, cost=70, 
               bounds="Value::Str of [u8;4] symbolic ASCII, len 0..=4, unwind 7",
               asserts="TryFrom<Value>.is_ok() == spec recogniser") for n in _names if n != "objpath"],
    }],
}

# ------------------------------------------------------------------ C15
PROPS["C15"] = {
    "bounds": "process-wide counter state: every u32 value (including 0 and the wrap boundary u32::MAX); 2 and 3 consecutive messages",
    "outside": "real multi-threaded interleavings: Kani does not model threads; concluded from the per-call step facts plus the atomicity of fetch_add (trusted), see assumptions",
    "assumptions": [
        "AtomicU32::fetch_add is an atomic read-modify-write: every counter value is returned to exactly one caller per 2^32 window (trusted axiom; Kani treats atomics sequentially)",
        "PrimaryHeader::new touches SERIAL_NUM only through fetch_add (structural fact checked by the step harness: the counter advances by exactly the number of values handed out)",
    ],
    "level_text": "Bounded model checking of PrimaryHeader::new from an arbitrary counter state (private static set through the cfg(kani) hook): the solver proves, "
                  "for all 2^32 states, that the serial is non-zero, is the counter value (zero skipped), the counter advances exactly, and consecutive serials differ - "
                  "including the wrap-around boundary no test reaches.",
    "level_note": "sequential step facts for every state; thread interleavings rest on the atomic-RMW axiom listed in assumptions",
    "source_invariants": [{
        "file": "zbus/src/message/header.rs", "token": r"SERIAL_NUM",
        "allowed": r"SERIAL_NUM\.fetch_add\(1, Relaxed\)|^static SERIAL_NUM: AtomicU32 = AtomicU32::new\(0\);",
        "why": "the thread-safety part of the claim assumes the process-wide counter is touched only by atomic fetch_add(1); "
               "another access pattern (load/store/compare_exchange) needs an interleaving argument this technique cannot give",
    }],
    "groups": [dict(ZB_INCRATE, in_crate_file="zbus_header.rs", harnesses=[
        H("c15_serial_step", timeout=1500, cost=60, bounds="counter state: every u32 (incl. 0 and u32::MAX); two consecutive PrimaryHeader::new calls",
          asserts="serial != 0; serial == c (or 1 when c == 0); counter advances exactly; consecutive serials differ"),
        H("c15_serial_three_distinct", timeout=1500, cost=60, bounds="counter state: every u32; three consecutive calls",
          asserts="pairwise distinct, non-zero"),
    ])],
}

# ------------------------------------------------------------------ C23
PROPS["C23"] = {
    "bounds": "percent-decoding of every ASCII string of 0..=4 bytes; percent-encoding of every byte string of 0..=3 bytes (through core::fmt)",
    "outside": "Address::from_str as a whole (winnow + HashMap: does not fit), per-transport option parsing incl. the missing percent-decoding of unix path/dir/tmpdir and unixexec values (observed by reading, not decided), vsock/tcp",
    "assumptions": [FMT_STUB, FORGET],
    "level_text": "Bounded model checking of the percent-coding kernels against the specification's escaping rule: decode accepts exactly the valid escapes with the right bytes; encode escapes exactly the non-optionally-escaped bytes and decodes back to the input.",
    "level_note": "kernel level; whole-address parsing outside the claim",
    "groups": [dict(ZB_INCRATE, in_crate_file="zbus_address.rs", harnesses=[
        H("c23_decode_percents_len3", timeout=1800, cost=200, bounds="every ASCII string of 0..=3 bytes", asserts="decode_percents == reference percent-decoder (accept/reject and bytes)"),
        H("c23_decode_percents_len4", "thorough", timeout=2400, cost=400, mem_gb=16, bounds="every ASCII string of exactly 4 bytes", asserts="decode_percents == reference percent-decoder (accept/reject and bytes)"),
        H("c23_encode_percents_len2", timeout=1800, cost=250, bounds="every byte string of 0..=2 bytes, through core::fmt", asserts="escaping rule, and reference-decode(encode(x)) == x"),
        H("c23_encode_percents_len3", "thorough", timeout=2400, cost=700, mem_gb=16, bounds="every byte string of 0..=3 bytes, through core::fmt", asserts="escaping rule, and reference-decode(encode(x)) == x"),
    ])],
}

# ------------------------------------------------------------------ manifest-level data
HOOKS = {
    "guard": "cfg(kani)",
    "enable": "set automatically by the Kani compiler (`cargo kani` passes --cfg kani); normal cargo builds never set it, so the guarded "
              "`#[cfg(kani)] #[path = \"/verif/in_crate/<file>.rs\"] mod verif_kani;` lines compile to nothing",
    "baseline_off_cmd": "cd /repo && cargo test --workspace --no-fail-fast --offline",
    "source_commits": ["bf0a9fd3", "474e4624"],
    "add_only": True,
}

NOT_APPLICABLE = {
    "C06": "signature grammar: attempted - Signature validate()/from_bytes() on 1 fully symbolic byte runs CBMC out of 16 GB (1073 s), 2-3 bytes out of 24 GB, one-symbolic-byte templates out of 16 GB (recursive winnow alt x drop glue of intermediate Signatures); formatting/Eq/Hash harnesses over a hand-built catalogue time out at 2400 s through core::fmt. No bound large enough to contain a signature fits (DESIGN.md 9.5)",
    "C09": "derived/built-in Type signatures: a quantifier over programs (type definitions) that a solver cannot generate; and every derive code path ends in struct/enum serialization, which does not fit in CBMC here ((yu) decode: out of memory with a symbolic offset; PrimaryHeader decode: out of 30 GB at 3445 s)",
    "C11": "built messages re-parse: needs Message::from_bytes = struct decode of the 16-byte header + a(yv) field array through Value; measured: PrimaryHeader::read on 16 symbolic bytes runs out of 30 GB at 3445 s; whole-message probe 11 GB at 500 s in symbolic execution alone",
    "C12": "hostile message bytes: same blocker as C11 (header struct decode out of 30 GB); no smaller sequential kernel contains the panics observed by reading (bytes[0] on empty input, FieldPos::read expect, body() slice assert)",
    "C13": "unknown header fields/flags/types: the decisions are made inside the header struct decode and FieldsVisitor::visit_seq (Value decode of a(yv)), which do not fit (see C11); single-byte decoders of FieldCode/Flags/Type alone do not decide 'tolerated at message level'",
    "C14": "stream framing: ReadHalf::receive_message is one async function mixing Vec buffers, recvmsg futures and the size arithmetic; design probe: 14 GB at 680 s without finishing; no kernel to isolate",
    "C16": "server handshake: every path reaches `tracing` macros, on which Kani 0.68 aborts with an internal compiler error (catch_unwind through the TLS destructor of tracing's dispatcher); a no-op tracing shim would require patching /repo's workspace manifest",
    "C17": "client handshake: same tracing ICE as C16",
    "C21": "match-rule matching: attempted with the real MatchRule::matches and harness-controlled stubs for Message::header/message_type (in-crate): the two multi-cell harnesses (path_namespace over 5 symbolic path bytes; exact-match keys) time out at 1800 s and a single cell (path_namespace='/a' against every valid path of <= 4 bytes) runs out of 20 GB at 1088 s (clone and drop glue of the 7-field header per call)",
    "C22": "match-rule string round trip: Display through core::fmt on symbolic strings plus the winnow rule parser; the cheaper C23 formatter harness already needs 725 s for 3 bytes and the C06 parser experience (1 symbolic byte: out of memory) rules out the parser side",
    "C18": "concurrent sends never interleave: a property of the socket_write mutex under real task interleavings; Kani/CBMC do not model async task concurrency and the send path is behind `tracing` (Kani ICE); no sequential kernel captures it",
    "C19": "method call/reply matching: depends on async-broadcast channels, event-listener, executor tasks and timers under arbitrary schedules; not encodable for a bounded model checker of sequential Rust",
    "C20": "message streams deliver once, in order: subscription map behind async_lock::Mutex, broadcast back-pressure and drop-time tasks; schedule/history quantifier over heap-rich concurrent state",
    "C24": "object server registry: ObjectServer::at/remove need a live Connection; Node tree is HashMap<String,Node> + Arc<RwLock<dyn Interface>> (SipHash on symbolic keys does not terminate in the SAT solver) and histories are unbounded",
    "C25": "ObjectManager signals: as C24 plus signal emission over a live connection",
    "C26": "method dispatch: quantifier over generated programs (proc-macro output) + async dispatch over a connection; cannot be encoded",
    "C27": "introspection XML: pure core::fmt string building and quick-xml parsing over unbounded text, quantifier over generated programs",
    "C28": "Properties interface: needs object server + connection + signal emission; programs x histories",
    "C29": "non-spawning interfaces run calls in order: scheduling property of the executor",
    "C30": "no deadlock / lost wake-up in handlers: liveness under schedules; not a bounded safety assertion over sequential code",
    "C31": "proxy property cache: PropertiesCache lives behind async locks, HashMap<String,..>, joined ordered streams and a background task",
    "C32": "signal stream owner tracking: SignalStream::filter is private to a type only constructible from a live Connection/Proxy",
    "C33": "generated proxies and interfaces agree: programs quantifier + full client/server stack",
    "C34": "XML model round trip: quick-xml + serde over unbounded strings; symbolic execution of the tokenizer is out of reach at any useful bound",
    "C35": "feature combinations build: a property of cargo check, not of executable code; there is no symbolic input",
    "C36": "name bookkeeping: state in Mutex<HashMap<WellKnownName,NameStatus>> updated by spawned monitor tasks reacting to bus signals",
    "C37": "bus match registrations: refcount map + async AddMatch/RemoveMatch calls + deferred drops; histories under schedules",
    "C38": "transport failures end pending work: about tasks and channels; only the per-read failure part is sequential (covered in C14 where claimed)",
    "C39": "drop / graceful shutdown: lifetime of Arcs across tasks, peer-visible close, executor draining",
}
