#!/usr/bin/env python3-vt
import json, sys, glob, jsonschema
jsonschema.validate(json.load(open('/verif/MANIFEST.json')), json.load(open('/root/.vp/MANIFEST.schema.json')))
print('manifest valid')
sch = json.load(open('/root/.vp/EVIDENCE.schema.json'))
for f in sorted(glob.glob('/verif/evidence/*.json')):
    try:
        jsonschema.validate(json.load(open(f)), sch); print(f, 'valid')
    except Exception as e:
        print(f, 'INVALID', str(e)[:300])
