#!/usr/bin/env python3
"""Regenerates MANIFEST.json from registry.py (claimed properties) and NOT_APPLICABLE below."""
import json, os, sys
sys.path.insert(0, os.path.dirname(os.path.abspath(__file__)))
import registry

ids = [json.loads(l)["id"] for l in open(os.path.join(os.path.dirname(os.path.abspath(__file__)), "properties.jsonl"))]
checks = []
for pid in ids:
    p = registry.PROPS.get(pid)
    if not p or not p.get("claimed", True):
        continue
    checks.append({
        "property_id": pid,
        "quick_cmd": "./check %s --tier quick" % pid,
        "thorough_cmd": "./check %s --tier thorough" % pid,
        "evidence_file": "/verif/evidence/%s.json" % pid,
        "replay_cmd_template": "./check --replay {path}",
        "engine": "kani-cbmc",
        "level_claimed": {
            "category": "model_checking",
            "text": p["level_text"],
            "design_ref": p.get("design_ref", "DESIGN.md §4 " + pid),
        },
        "level_note": p["level_note"],
        "technique": p.get("technique", "bounded model checking of the compiled Rust code (Kani 0.68 / CBMC 6.11 / CaDiCaL): "
                                        "#[kani::proof] harnesses over kani::any() inputs vs. an independent reference model, "
                                        "unwinding assertions on, counterexamples replayed natively"),
    })
na = []
for pid in ids:
    if pid in [c["property_id"] for c in checks]:
        continue
    na.append({"property_id": pid, "reason": registry.NOT_APPLICABLE.get(pid, "not yet claimed: harnesses for this property are not built / do not fit yet (see DESIGN.md)")})
m = {
    "version": 1,
    "setup_cmd": "./check --setup",
    "hooks": registry.HOOKS,
    "engines": [{
        "name": "kani-cbmc", "path": "/verif/check",
        "serves_properties": [c["property_id"] for c in checks],
        "kind_free_text": "Kani 0.68 compiles /repo's crates (path dependencies / cfg(kani) in-crate harness modules) to a goto-program on every run; CBMC 6.11 + CaDiCaL decides each harness; runner = /verif/check + /verif/registry.py",
    }],
    "checks": checks,
    "not_applicable": na,
    "notes": "All results are bounded (bounds per harness in evidence samples); exit 2 = inconclusive (timeout/OOM/tool error), never reported as held.",
}
json.dump(m, open(os.path.join(os.path.dirname(os.path.abspath(__file__)), "MANIFEST.json"), "w"), indent=1)
print("claimed:", [c["property_id"] for c in checks])
