//! C10 harnesses: every validated string type vs. the spec recogniser, for
//! every byte string up to L bytes (symbolic bytes, symbolic length).
use crate::refmodel as m;
use zbus_names::*;
use zvariant::{ObjectPath, Str, Value};

pub fn no_format(_: core::fmt::Arguments<'_>) -> String {
    String::new()
}

/// Symbolic string of at most L bytes; returns None when it is not UTF-8
/// (such byte strings cannot be presented as `&str` at all).
macro_rules! sym_str {
    ($buf:ident, $len:ident, $L:expr) => {
        let $buf: [u8; $L] = kani::any();
        let $len: usize = kani::any();
        kani::assume($len <= $L);
    };
}

macro_rules! try_from_str {
    ($h:ident, $ty:ty, $model:path, $L:expr) => {
        #[kani::proof]
        #[kani::unwind(8)]
        #[kani::stub(alloc::fmt::format, no_format)]
        fn $h() {
            sym_str!(buf, len, $L);
            let bytes = &buf[..len];
            if let Ok(s) = core::str::from_utf8(bytes) {
                let r = <$ty>::try_from(s);
                let real = r.is_ok();
                core::mem::forget(r);
                let model = $model(bytes);
                kani::cover!(real, "accepted");
                kani::cover!(!real, "rejected");
                assert!(real == model, "acceptance differs from the spec grammar");
            }
        }
    };
}

/// ASCII-only variant (bytes < 0x80 assumed, UTF-8 check skipped): buys one or
/// two more symbolic bytes. Non-ASCII input is covered by the variant above.
macro_rules! try_from_ascii {
    ($h:ident, $ty:ty, $model:path, $L:expr, $U:expr) => {
        #[kani::proof]
        #[kani::unwind($U)]
        #[kani::stub(alloc::fmt::format, no_format)]
        fn $h() {
            sym_str!(buf, len, $L);
            let mut i = 0;
            while i < $L {
                kani::assume(buf[i] < 0x80);
                i += 1;
            }
            let bytes = &buf[..len];
            let s = unsafe { core::str::from_utf8_unchecked(bytes) };
            let r = <$ty>::try_from(s);
            let real = r.is_ok();
            core::mem::forget(r);
            let model = $model(bytes);
            kani::cover!(real, "accepted");
            kani::cover!(!real, "rejected");
            assert!(real == model, "acceptance differs from the spec grammar");
        }
    };
}

try_from_str!(c10_unique_str4, UniqueName<'_>, m::unique_name, 4);
try_from_str!(c10_wellknown_str4, WellKnownName<'_>, m::well_known_name, 4);
try_from_str!(c10_busname_str4, BusName<'_>, m::bus_name, 4);
try_from_str!(c10_interface_str4, InterfaceName<'_>, m::interface_name, 4);
try_from_str!(c10_error_str4, ErrorName<'_>, m::error_name, 4);
try_from_str!(c10_member_str4, MemberName<'_>, m::member_name, 4);
try_from_str!(c10_property_str4, PropertyName<'_>, m::property_name, 4);
try_from_str!(c10_objpath_str4, ObjectPath<'_>, m::object_path, 4);

try_from_ascii!(c10_unique_ascii6, UniqueName<'_>, m::unique_name, 6, 9);
try_from_ascii!(c10_wellknown_ascii6, WellKnownName<'_>, m::well_known_name, 6, 9);
try_from_ascii!(c10_busname_ascii6, BusName<'_>, m::bus_name, 6, 9);
try_from_ascii!(c10_interface_ascii6, InterfaceName<'_>, m::interface_name, 6, 9);
try_from_ascii!(c10_error_ascii6, ErrorName<'_>, m::error_name, 6, 9);
try_from_ascii!(c10_member_ascii6, MemberName<'_>, m::member_name, 6, 9);
try_from_ascii!(c10_objpath_ascii6, ObjectPath<'_>, m::object_path, 6, 9);

/// Route: conversion from a dynamic value (`TryFrom<Value>`).
macro_rules! try_from_value {
    ($h:ident, $ty:ty, $model:path, $L:expr, $U:expr) => {
        #[kani::proof]
        #[kani::unwind($U)]
        #[kani::stub(alloc::fmt::format, no_format)]
        fn $h() {
            sym_str!(buf, len, $L);
            let mut i = 0;
            while i < $L {
                kani::assume(buf[i] < 0x80);
                i += 1;
            }
            let bytes = &buf[..len];
            let s = unsafe { core::str::from_utf8_unchecked(bytes) };
            let v = Value::Str(Str::from(s));
            let r = <$ty>::try_from(v);
            let real = r.is_ok();
            core::mem::forget(r);
            let model = $model(bytes);
            kani::cover!(real, "accepted");
            kani::cover!(!real, "rejected");
            assert!(real == model, "TryFrom<Value> acceptance differs from the spec grammar");
        }
    };
}

try_from_value!(c10_unique_value4, UniqueName<'_>, m::unique_name, 4, 7);
try_from_value!(c10_wellknown_value4, WellKnownName<'_>, m::well_known_name, 4, 7);
try_from_value!(c10_busname_value4, BusName<'_>, m::bus_name, 4, 7);
try_from_value!(c10_interface_value4, InterfaceName<'_>, m::interface_name, 4, 7);
try_from_value!(c10_error_value4, ErrorName<'_>, m::error_name, 4, 7);
try_from_value!(c10_member_value4, MemberName<'_>, m::member_name, 4, 7);
try_from_value!(c10_property_value4, PropertyName<'_>, m::property_name, 4, 7);

/// 255-byte limit: concrete content of the right shape, symbolic choice between 255 and 256 bytes.
macro_rules! length_limit {
    ($h:ident, $ty:ty, $model:path, $first:expr, $second:expr) => {
        #[kani::proof]
        #[kani::unwind(262)]
        #[kani::stub(alloc::fmt::format, no_format)]
        fn $h() {
            let mut buf = [b'a'; 258];
            buf[0] = $first;
            buf[1] = $second;
            if $first == b':' {
                buf[2] = b'.';
            }
            let over: bool = kani::any();
            let len: usize = if over { 256 } else { 255 };
            let bytes = &buf[..len];
            let s = unsafe { core::str::from_utf8_unchecked(bytes) };
            let r = <$ty>::try_from(s);
            let real = r.is_ok();
            core::mem::forget(r);
            kani::cover!(real, "accepted");
            kani::cover!(!real, "rejected");
            // the content is valid for the type, so acceptance depends on the length only
            assert!(real == (len <= 255), "the 255-byte limit is not enforced exactly");
        }
    };
}
length_limit!(c10_unique_len255, UniqueName<'_>, m::unique_name, b':', b'a');
length_limit!(c10_wellknown_len255, WellKnownName<'_>, m::well_known_name, b'a', b'.');
length_limit!(c10_busname_wk_len255, BusName<'_>, m::bus_name, b'a', b'.');
length_limit!(c10_busname_uniq_len255, BusName<'_>, m::bus_name, b':', b'a');
length_limit!(c10_interface_len255, InterfaceName<'_>, m::interface_name, b'a', b'.');
length_limit!(c10_error_len255, ErrorName<'_>, m::error_name, b'a', b'.');
length_limit!(c10_member_len255, MemberName<'_>, m::member_name, b'a', b'a');
length_limit!(c10_property_len255, PropertyName<'_>, m::property_name, b'a', b'a');

// ---------------------------------------------------------------- route: Deserialize (D-Bus bytes -> name type)
use zvariant::serialized::{Context, Data};

pub fn no_close(_: &mut std::os::fd::OwnedFd) {}
const UTF8_ERR: core::str::Utf8Error = match core::str::from_utf8(&[0xff]) {
    Err(e) => e,
    Ok(_) => panic!(),
};
/// std stub (byte-loop specification): the input of these harnesses is constrained to ASCII, for which UTF-8
/// validity is "every byte < 0x80".
pub fn ascii_from_utf8(v: &[u8]) -> core::result::Result<&str, core::str::Utf8Error> {
    let mut i = 0;
    while i < v.len() {
        if v[i] >= 0x80 {
            return Err(UTF8_ERR);
        }
        i += 1;
    }
    Ok(unsafe { core::str::from_utf8_unchecked(v) })
}
pub fn naive_memchr(x: u8, text: &[u8]) -> Option<usize> {
    let mut i = 0;
    while i < text.len() {
        if text[i] == x {
            return Some(i);
        }
        i += 1;
    }
    None
}

/// A well-formed D-Bus STRING (length L in 0..=3, text, NUL) at offset 0, little endian, with symbolic ASCII text:
/// deserializing it as the name type succeeds exactly when the text is a valid name.
macro_rules! deserialize_route {
    ($h:ident, $ty:ty, $model:path) => {
        #[kani::proof]
        #[kani::unwind(9)]
        #[kani::stub(alloc::fmt::format, no_format)]
        #[kani::stub(<std::os::fd::OwnedFd as core::ops::Drop>::drop, no_close)]
        #[kani::stub(core::str::from_utf8, ascii_from_utf8)]
        #[kani::stub(core::slice::memchr::memchr, naive_memchr)]
        fn $h() {
            let t: [u8; 3] = kani::any();
            kani::assume(t[0] != 0 && t[0] < 0x80 && t[1] != 0 && t[1] < 0x80 && t[2] != 0 && t[2] < 0x80);
            let l: usize = kani::any();
            kani::assume(l <= 3);
            let mut buf = [0u8; 8];
            buf[0] = l as u8;
            let mut i = 0;
            while i < l {
                buf[4 + i] = t[i];
                i += 1;
            }
            let data = Data::new(&buf[..4 + l + 1], Context::new_dbus(zvariant::LE, 0));
            let r = data.deserialize::<$ty>();
            let real = r.is_ok();
            core::mem::forget(r);
            core::mem::forget(data);
            let model = $model(&t[..l]);
            kani::cover!(real, "accepted");
            kani::cover!(!real, "rejected");
            assert!(real == model, "Deserialize acceptance differs from the spec grammar");
        }
    };
}
deserialize_route!(c10_member_deser3, MemberName<'_>, m::member_name);
deserialize_route!(c10_unique_deser3, UniqueName<'_>, m::unique_name);
deserialize_route!(c10_objpath_deser3, ObjectPath<'_>, m::object_path);

/// The one non-colon string a unique name may be: exactly "org.freedesktop.DBus". Every string made of that text
/// plus 0..=2 arbitrary ASCII bytes is classified against the spec recogniser.
macro_rules! dbus_suffix {
    ($h:ident, $ty:ty, $model:path) => {
        #[kani::proof]
        #[kani::unwind(26)]
        #[kani::stub(alloc::fmt::format, no_format)]
        fn $h() {
            let mut buf = [0u8; 22];
            let lit = b"org.freedesktop.DBus";
            let mut i = 0;
            while i < 20 {
                buf[i] = lit[i];
                i += 1;
            }
            let x: [u8; 2] = kani::any();
            kani::assume(x[0] < 0x80 && x[1] < 0x80);
            buf[20] = x[0];
            buf[21] = x[1];
            let len: usize = kani::any();
            kani::assume(len >= 20 && len <= 22);
            let bytes = &buf[..len];
            let s = unsafe { core::str::from_utf8_unchecked(bytes) };
            let r = <$ty>::try_from(s);
            let real = r.is_ok();
            core::mem::forget(r);
            let model = $model(bytes);
            kani::cover!(real, "accepted");
            kani::cover!(!real, "rejected");
            assert!(real == model, "acceptance differs from the spec grammar");
        }
    };
}
dbus_suffix!(c10_unique_dbus_suffix, UniqueName<'_>, m::unique_name);
