//! C10 harnesses: every validated string type vs. the spec recogniser, for
//! every byte string up to L bytes (symbolic bytes, symbolic length).
use crate::refmodel as m;
use zbus_names::*;
use zvariant::{ObjectPath, Str, Value};

pub fn no_format(_: core::fmt::Arguments<'_>) -> String {
    String::new()
}

/// Symbolic string of at most L bytes; returns None when it is not UTF-8
/// (such byte strings cannot be presented as `&str` at all).
macro_rules! sym_str {
    ($buf:ident, $len:ident, $L:expr) => {
        let $buf: [u8; $L] = kani::any();
        let $len: usize = kani::any();
        kani::assume($len <= $L);
    };
}

macro_rules! try_from_str {
    ($h:ident, $ty:ty, $model:path, $L:expr) => {
        #[kani::proof]
        #[kani::unwind(8)]
        #[kani::stub(alloc::fmt::format, no_format)]
        fn $h() {
            sym_str!(buf, len, $L);
            let bytes = &buf[..len];
            if let Ok(s) = core::str::from_utf8(bytes) {
                let r = <$ty>::try_from(s);
                let real = r.is_ok();
                core::mem::forget(r);
                let model = $model(bytes);
                kani::cover!(real, "accepted");
                kani::cover!(!real, "rejected");
                assert!(real == model, "acceptance differs from the spec grammar");
            }
        }
    };
}

/// ASCII-only variant (bytes < 0x80 assumed, UTF-8 check skipped): buys one or
/// two more symbolic bytes. Non-ASCII input is covered by the variant above.
macro_rules! try_from_ascii {
    ($h:ident, $ty:ty, $model:path, $L:expr, $U:expr) => {
        #[kani::proof]
        #[kani::unwind($U)]
        #[kani::stub(alloc::fmt::format, no_format)]
        fn $h() {
            sym_str!(buf, len, $L);
            let mut i = 0;
            while i < $L {
                kani::assume(buf[i] < 0x80);
                i += 1;
            }
            let bytes = &buf[..len];
            let s = unsafe { core::str::from_utf8_unchecked(bytes) };
            let r = <$ty>::try_from(s);
            let real = r.is_ok();
            core::mem::forget(r);
            let model = $model(bytes);
            kani::cover!(real, "accepted");
            kani::cover!(!real, "rejected");
            assert!(real == model, "acceptance differs from the spec grammar");
        }
    };
}

try_from_str!(c10_unique_str4, UniqueName<'_>, m::unique_name, 4);
try_from_str!(c10_wellknown_str4, WellKnownName<'_>, m::well_known_name, 4);
try_from_str!(c10_busname_str4, BusName<'_>, m::bus_name, 4);
try_from_str!(c10_interface_str4, InterfaceName<'_>, m::interface_name, 4);
try_from_str!(c10_error_str4, ErrorName<'_>, m::error_name, 4);
try_from_str!(c10_member_str4, MemberName<'_>, m::member_name, 4);
try_from_str!(c10_property_str4, PropertyName<'_>, m::property_name, 4);
try_from_str!(c10_objpath_str4, ObjectPath<'_>, m::object_path, 4);

try_from_ascii!(c10_unique_ascii6, UniqueName<'_>, m::unique_name, 6, 9);
try_from_ascii!(c10_wellknown_ascii6, WellKnownName<'_>, m::well_known_name, 6, 9);
try_from_ascii!(c10_busname_ascii6, BusName<'_>, m::bus_name, 6, 9);
try_from_ascii!(c10_interface_ascii6, InterfaceName<'_>, m::interface_name, 6, 9);
try_from_ascii!(c10_error_ascii6, ErrorName<'_>, m::error_name, 6, 9);
try_from_ascii!(c10_member_ascii6, MemberName<'_>, m::member_name, 6, 9);
try_from_ascii!(c10_objpath_ascii6, ObjectPath<'_>, m::object_path, 6, 9);

/// Route: conversion from a dynamic value (`TryFrom<Value>`).
macro_rules! try_from_value {
    ($h:ident, $ty:ty, $model:path, $L:expr, $U:expr) => {
        #[kani::proof]
        #[kani::unwind($U)]
        #[kani::stub(alloc::fmt::format, no_format)]
        fn $h() {
            sym_str!(buf, len, $L);
            let mut i = 0;
            while i < $L {
                kani::assume(buf[i] < 0x80);
                i += 1;
            }
            let bytes = &buf[..len];
            let s = unsafe { core::str::from_utf8_unchecked(bytes) };
            let v = Value::Str(Str::from(s));
            let r = <$ty>::try_from(v);
            let real = r.is_ok();
            core::mem::forget(r);
            let model = $model(bytes);
            kani::cover!(real, "accepted");
            kani::cover!(!real, "rejected");
            assert!(real == model, "TryFrom<Value> acceptance differs from the spec grammar");
        }
    };
}

try_from_value!(c10_unique_value4, UniqueName<'_>, m::unique_name, 4, 7);
try_from_value!(c10_wellknown_value4, WellKnownName<'_>, m::well_known_name, 4, 7);
try_from_value!(c10_busname_value4, BusName<'_>, m::bus_name, 4, 7);
try_from_value!(c10_interface_value4, InterfaceName<'_>, m::interface_name, 4, 7);
try_from_value!(c10_error_value4, ErrorName<'_>, m::error_name, 4, 7);
try_from_value!(c10_member_value4, MemberName<'_>, m::member_name, 4, 7);
try_from_value!(c10_property_value4, PropertyName<'_>, m::property_name, 4, 7);

/// 255-byte limit: concrete content of the right shape, symbolic choice between 255 and 256 bytes.
macro_rules! length_limit {
    ($h:ident, $ty:ty, $model:path, $first:expr, $second:expr) => {
        #[kani::proof]
        #[kani::unwind(262)]
        #[kani::stub(alloc::fmt::format, no_format)]
        fn $h() {
            let mut buf = [b'a'; 258];
            buf[0] = $first;
            buf[1] = $second;
            if $first == b':' {
                buf[2] = b'.';
            }
            let over: bool = kani::any();
            let len: usize = if over { 256 } else { 255 };
            let bytes = &buf[..len];
            let s = unsafe { core::str::from_utf8_unchecked(bytes) };
            let r = <$ty>::try_from(s);
            let real = r.is_ok();
            core::mem::forget(r);
            kani::cover!(real, "accepted");
            kani::cover!(!real, "rejected");
            // the content is valid for the type, so acceptance depends on the length only
            assert!(real == (len <= 255), "the 255-byte limit is not enforced exactly");
        }
    };
}
length_limit!(c10_unique_len255, UniqueName<'_>, m::unique_name, b':', b'a');
length_limit!(c10_wellknown_len255, WellKnownName<'_>, m::well_known_name, b'a', b'.');
length_limit!(c10_busname_wk_len255, BusName<'_>, m::bus_name, b'a', b'.');
length_limit!(c10_busname_uniq_len255, BusName<'_>, m::bus_name, b':', b'a');
length_limit!(c10_interface_len255, InterfaceName<'_>, m::interface_name, b'a', b'.');
length_limit!(c10_error_len255, ErrorName<'_>, m::error_name, b'a', b'.');
length_limit!(c10_member_len255, MemberName<'_>, m::member_name, b'a', b'a');
length_limit!(c10_property_len255, PropertyName<'_>, m::property_name, b'a', b'a');
