#![allow(dead_code)]
pub mod refmodel;
#[cfg(kani)]
mod harness;
