//! Recogniser for D-Bus type signatures written from the specification
//! ("Type System" / "Summary of types" / "Valid Signatures"):
//!  * a signature is a sequence of zero or more single complete types;
//!  * basic type codes y b n q i u x t d s o g h; variant v;
//!  * `a` followed by a single complete type, or by a dict entry `{` basic complete `}`;
//!  * dict entries occur only as array element types, key must be a basic type, exactly two members;
//!  * structs `(` one or more complete types `)` — empty structs are not allowed;
//!  * maximum length 255 bytes; maximum array nesting 32; maximum struct nesting 32.
//! `m` (maybe) followed by a single complete type is the GVariant extension.
//! Iterative, explicit stack, no allocation.

pub const MAX_LEN: usize = 255;
pub const MAX_DEPTH: usize = 32;

fn is_basic(c: u8) -> bool {
    matches!(
        c,
        b'y' | b'b' | b'n' | b'q' | b'i' | b'u' | b'x' | b't' | b'd' | b's' | b'o' | b'g' | b'h'
    )
}

#[derive(Clone, Copy, PartialEq)]
enum Frame {
    /// inside `(`: number of complete types seen so far
    Struct(u8),
    /// inside `a{`: number of members seen so far
    Dict(u8),
}

pub struct Limits {
    pub enforce_len: bool,
    pub enforce_depth: bool,
    pub basic_dict_key: bool,
    pub maybe: bool,
}

pub const SPEC: Limits = Limits {
    enforce_len: true,
    enforce_depth: true,
    basic_dict_key: true,
    maybe: false,
};

/// Is `s` a valid signature (sequence of complete types)?
pub fn valid(s: &[u8], lim: &Limits) -> bool {
    if lim.enforce_len && s.len() > MAX_LEN {
        return false;
    }
    // frame stack (structs and dict entries); arrays/maybes are "pending prefixes"
    let mut stack = [Frame::Struct(0); 80];
    let mut sp = 0usize;
    // number of pending `a` (and `m`) prefixes directly before the next complete type,
    // per frame level is not needed: prefixes bind to the very next type.
    let mut pending_arrays = 0usize; // consecutive 'a's waiting for their element type
    let mut pending_maybes = 0usize;
    // nesting depths of enclosing *completed prefixes*: arrays enclosing the current position
    let mut array_depth = 0usize;
    let mut struct_depth = 0usize;
    // for each open frame remember how many arrays were wrapped around it (to pop on close)
    let mut frame_arrays = [0u8; 80];
    let mut frame_maybes = [0u8; 80];

    let mut i = 0usize;
    while i < s.len() {
        let c = s[i];
        i += 1;
        // -- prefix codes
        if c == b'a' {
            pending_arrays += 1;
            array_depth += 1;
            if lim.enforce_depth && array_depth > MAX_DEPTH {
                return false;
            }
            continue;
        }
        if c == b'm' {
            if !lim.maybe {
                return false;
            }
            pending_maybes += 1;
            continue;
        }
        // -- openers
        if c == b'(' {
            if sp >= 80 {
                return false;
            }
            struct_depth += 1;
            if lim.enforce_depth && struct_depth > MAX_DEPTH {
                return false;
            }
            stack[sp] = Frame::Struct(0);
            frame_arrays[sp] = pending_arrays as u8;
            frame_maybes[sp] = pending_maybes as u8;
            sp += 1;
            pending_arrays = 0;
            pending_maybes = 0;
            continue;
        }
        if c == b'{' {
            // dict entry only directly as an array element type
            if pending_arrays == 0 || pending_maybes != 0 {
                return false;
            }
            if sp >= 80 {
                return false;
            }
            stack[sp] = Frame::Dict(0);
            frame_arrays[sp] = pending_arrays as u8;
            frame_maybes[sp] = 0;
            sp += 1;
            pending_arrays = 0;
            continue;
        }
        // -- a complete type ends here: leaf, or a closer
        let completed: bool;
        if c == b')' {
            if sp == 0 || pending_arrays != 0 || pending_maybes != 0 {
                return false;
            }
            match stack[sp - 1] {
                Frame::Struct(n) => {
                    if n == 0 {
                        return false; // empty struct
                    }
                }
                Frame::Dict(_) => return false,
            }
            sp -= 1;
            struct_depth -= 1;
            pending_arrays = frame_arrays[sp] as usize;
            pending_maybes = frame_maybes[sp] as usize;
            completed = true;
        } else if c == b'}' {
            if sp == 0 || pending_arrays != 0 || pending_maybes != 0 {
                return false;
            }
            match stack[sp - 1] {
                Frame::Dict(n) => {
                    if n != 2 {
                        return false;
                    }
                }
                Frame::Struct(_) => return false,
            }
            sp -= 1;
            pending_arrays = frame_arrays[sp] as usize;
            pending_maybes = 0;
            completed = true;
        } else if is_basic(c) || c == b'v' {
            // dict key position must be basic and un-prefixed
            if sp > 0 {
                if let Frame::Dict(0) = stack[sp - 1] {
                    if lim.basic_dict_key && (!is_basic(c) || pending_arrays != 0 || pending_maybes != 0) {
                        return false;
                    }
                }
            }
            completed = true;
        } else {
            return false;
        }
        if completed {
            // key-position check for container keys (closers): a container completed as dict member 0
            if c == b')' || c == b'}' {
                if sp > 0 {
                    if let Frame::Dict(0) = stack[sp - 1] {
                        if lim.basic_dict_key {
                            return false;
                        }
                    }
                }
            }
            // the completed type absorbs all pending prefixes
            array_depth -= pending_arrays;
            pending_arrays = 0;
            pending_maybes = 0;
            if sp > 0 {
                match stack[sp - 1] {
                    Frame::Struct(n) => stack[sp - 1] = Frame::Struct(if n < 200 { n + 1 } else { n }),
                    Frame::Dict(n) => {
                        if n >= 2 {
                            return false;
                        }
                        stack[sp - 1] = Frame::Dict(n + 1);
                    }
                }
            }
        }
    }
    sp == 0 && pending_arrays == 0 && pending_maybes == 0
}

#[cfg(test)]
mod tests {
    use super::*;
    fn spec(s: &str) -> bool {
        valid(s.as_bytes(), &SPEC)
    }
    #[test]
    fn spec_examples() {
        for ok in [
            "", "y", "ii", "aiai", "(ii)", "a(ii)", "a{sv}", "aa{sv}", "a{s(ii)}", "(i(ii))", "((ii)(ii))", "aai",
            "a{sa{sv}}", "v", "h", "(yyyyuua(yv))", "a{us}", "aaaaaaaaaaaaaaaaaaaaaaaaaaaaaaaay",
            "((((((((((((((((((((((((((((((((y))))))))))))))))))))))))))))))))",
        ] {
            assert!(spec(ok), "{ok}");
        }
        for bad in [
            "()", "a", "aa", "{sv}", "a{s}", "a{svv}", "a{vs}", "a{(i)s}", "a{ass}", "(", ")", "(i", "i)", "a{sv", "z", "r",
            "e", "m", "mi", "a{}", "(a)", "a(", "(a{sv)", "aaaaaaaaaaaaaaaaaaaaaaaaaaaaaaaaay",
            "(((((((((((((((((((((((((((((((((y)))))))))))))))))))))))))))))))))", "i{sv}", "(i{sv})", "a{s{sv}}",
        ] {
            assert!(!spec(bad), "{bad}");
        }
        assert!(spec(&"y".repeat(255)));
        assert!(!spec(&"y".repeat(256)));
        let gv = Limits { maybe: true, ..SPEC };
        assert!(valid(b"mi", &gv) && valid(b"ami", &gv) && valid(b"mas", &gv) && valid(b"m(ii)", &gv));
        assert!(!valid(b"m", &gv) && !valid(b"m{sv}", &gv));
    }

    /// Model validation against the repository's own test vectors and against the real parser
    /// on everything where the two are known to agree (all vectors without the three known gaps).
    #[test]
    fn agrees_with_repo_vectors() {
        let lim = Limits { maybe: cfg!(feature = "gvariant"), ..SPEC };
        for s in [
            "", "y", "b", "n", "q", "i", "u", "x", "t", "d", "s", "g", "o", "v", "h", "ay", "a{yy}", "a{sv}", "(yy)", "(ya{sv})",
            "a(ii)", "((ii)s)", "a{s(ii)}", "aay", "a", "()", "(", ")", "{ss}", "a{s}", "a{sss}", "z", "a{", "a{s", "(ii", "ii)",
        ] {
            let real = zvariant_utils::signature::validate(s.as_bytes()).is_ok();
            assert_eq!(real, valid(s.as_bytes(), &lim), "{s:?}");
        }
    }
}
