//! C06: signature grammar. `validate` (the allocation-free mode of the real winnow grammar) and `from_bytes`
//! against the spec recogniser, for every byte string up to L bytes.
use crate::refmodel::{valid, Limits, SPEC};
use zvariant_utils::signature::{validate, Signature};

pub fn no_format(_: core::fmt::Arguments<'_>) -> String {
    String::new()
}

fn lim() -> Limits {
    Limits {
        maybe: cfg!(feature = "gvariant"),
        ..SPEC
    }
}

macro_rules! validate_all {
    ($h:ident, $L:expr, $U:expr) => {
        #[kani::proof]
        #[kani::unwind($U)]
        #[kani::stub(alloc::fmt::format, no_format)]
        fn $h() {
            let buf: [u8; $L] = kani::any();
            let len: usize = kani::any();
            kani::assume(len <= $L);
            let s = &buf[..len];
            let r = validate(s);
            let real = r.is_ok();
            core::mem::forget(r);
            let model = valid(s, &lim());
            kani::cover!(real && len == $L, "accepted at full length");
            kani::cover!(!real, "rejected");
            assert!(real == model, "signature acceptance differs from the D-Bus grammar");
        }
    };
}

validate_all!(c06_validate_len2, 2, 5);
validate_all!(c06_validate_len3, 3, 6);
validate_all!(c06_validate_len4, 4, 7);
validate_all!(c06_validate_len5, 5, 8);

/// Known gap D2a (dict key must be a basic type) excluded: the model is relaxed to the grammar zbus implements
/// for dict keys, so every *other* difference is still reported.
macro_rules! validate_except_dict_key {
    ($h:ident, $L:expr, $U:expr) => {
        #[kani::proof]
        #[kani::unwind($U)]
        #[kani::stub(alloc::fmt::format, no_format)]
        fn $h() {
            let buf: [u8; $L] = kani::any();
            let len: usize = kani::any();
            kani::assume(len <= $L);
            let s = &buf[..len];
            let r = validate(s);
            let real = r.is_ok();
            core::mem::forget(r);
            let relaxed = Limits { basic_dict_key: false, ..lim() };
            let strict = valid(s, &lim());
            let loose = valid(s, &relaxed);
            kani::cover!(real && len == $L, "accepted at full length");
            kani::cover!(!real, "rejected");
            // outside the known-finding class (strings where strict and relaxed grammars agree) the parser must be exact
            if strict == loose {
                assert!(real == strict, "signature acceptance differs from the D-Bus grammar");
            } else {
                // inside the class the only tolerated behaviour is the listed one: accepted
                assert!(real == loose, "dict-key class: behaviour differs from the listed finding");
            }
        }
    };
}
validate_except_dict_key!(c06_validate_len4_xkey, 4, 7);
validate_except_dict_key!(c06_validate_len5_xkey, 5, 8);
validate_except_dict_key!(c06_validate_len6_xkey, 6, 9);

validate_all!(c06_validate_len1, 1, 4);

/// Template strings with one fully symbolic byte: every byte value at the marked position.
macro_rules! template1 {
    ($h:ident, $tmpl:expr, $at:expr, $U:expr) => {
        #[kani::proof]
        #[kani::unwind($U)]
        #[kani::stub(alloc::fmt::format, no_format)]
        fn $h() {
            let mut buf = *$tmpl;
            buf[$at] = kani::any();
            let s = &buf[..];
            let r = validate(s);
            let real = r.is_ok();
            core::mem::forget(r);
            let r2 = Signature::from_bytes(s);
            let real2 = r2.is_ok();
            if let Ok(sig) = &r2 {
                assert!(sig.string_len() == s.len() || (s.len() > 1 && sig.string_len() == s.len() + 2), "string_len differs from the parsed text");
            }
            core::mem::forget(r2);
            let model = valid(s, &lim());
            kani::cover!(real, "accepted");
            kani::cover!(!real, "rejected");
            assert!(real == model, "validate(): acceptance differs from the D-Bus grammar");
            assert!(real2 == model, "from_bytes(): acceptance differs from the D-Bus grammar");
        }
    };
}
template1!(c06_tmpl_a_x, b"a?", 1, 6);
template1!(c06_tmpl_struct_x, b"(?)", 1, 7);
template1!(c06_tmpl_dict_val, b"a{s?}", 4, 9);

// ---------------------------------------------------------------- formatting / equality across representations
use core::fmt::Write as _;
use std::cmp::Ordering;
use std::hash::{Hash, Hasher};

struct Sink {
    buf: [u8; 16],
    len: usize,
}
impl core::fmt::Write for Sink {
    fn write_str(&mut self, s: &str) -> core::fmt::Result {
        let b = s.as_bytes();
        let mut i = 0;
        while i < b.len() {
            if self.len >= 16 {
                return Err(core::fmt::Error);
            }
            self.buf[self.len] = b[i];
            self.len += 1;
            i += 1;
        }
        Ok(())
    }
}
fn sink_is(s: &Sink, want: &[u8]) -> bool {
    if s.len != want.len() {
        return false;
    }
    let mut i = 0;
    while i < want.len() {
        if s.buf[i] != want[i] {
            return false;
        }
        i += 1;
    }
    true
}
struct Fnv(u64);
impl Hasher for Fnv {
    fn finish(&self) -> u64 {
        self.0
    }
    fn write(&mut self, bytes: &[u8]) {
        let mut i = 0;
        while i < bytes.len() {
            self.0 = (self.0 ^ bytes[i] as u64).wrapping_mul(0x100000001b3);
            i += 1;
        }
    }
}
fn fnv<T: Hash>(t: &T) -> u64 {
    let mut h = Fnv(0xcbf29ce484222325);
    t.hash(&mut h);
    h.finish()
}

static ISY: Signature = Signature::static_structure(&[&Signature::I32, &Signature::Str, &Signature::U8]);
static X_ISY_FIELDS: [&Signature; 2] = [&Signature::I64, &ISY];
static YU: Signature = Signature::static_structure(&[&Signature::U8, &Signature::U32]);

/// Symbolic choice from a catalogue of hand-built signatures (static representation): string form with and without
/// outer parentheses, string_len, and comparison with the text.
#[kani::proof]
#[kani::unwind(18)]
#[kani::stub(alloc::fmt::format, no_format)]
fn c06_format_catalogue() {
    let which: u8 = kani::any();
    kani::assume(which < 5);
    let (sig, full, bare): (Signature, &[u8], &[u8]) = match which {
        0 => (Signature::U8, b"y", b"y"),
        1 => (Signature::static_array(&Signature::U8), b"ay", b"ay"),
        2 => (Signature::static_dict(&Signature::Str, &Signature::Variant), b"a{sv}", b"a{sv}"),
        3 => (Signature::static_structure(&X_ISY_FIELDS), b"(x(isy))", b"x(isy)"),
        _ => (Signature::static_array(&YU), b"a(yu)", b"a(yu)"),
    };
    let mut s1 = Sink { buf: [0; 16], len: 0 };
    let r = write!(s1, "{}", sig);
    assert!(r.is_ok() && sink_is(&s1, full), "Display does not reproduce the signature text");
    let mut s2 = Sink { buf: [0; 16], len: 0 };
    let r = sig.write_as_string_no_parens(&mut s2);
    assert!(r.is_ok() && sink_is(&s2, bare), "string form without outer parentheses is wrong");
    assert!(sig.string_len() == full.len(), "string_len differs from the text length");
    kani::cover!(which == 3, "nested struct");
    core::mem::forget(sig);
}

/// Equal signatures compare, order and hash equal regardless of representation (static refs vs boxed children).
#[kani::proof]
#[kani::unwind(6)]
#[kani::stub(alloc::fmt::format, no_format)]
fn c06_eq_across_representations() {
    let which: u8 = kani::any();
    kani::assume(which < 3);
    let (a, b): (Signature, Signature) = match which {
        0 => (Signature::static_array(&Signature::U8), Signature::array(Signature::U8)),
        1 => (
            Signature::static_dict(&Signature::Str, &Signature::Variant),
            Signature::dict(Signature::Str, Signature::Variant),
        ),
        _ => (Signature::static_structure(&[&Signature::U8, &Signature::U32]), Signature::structure([Signature::U8, Signature::U32])),
    };
    assert!(a == b && b == a, "equal signatures in different representations compare unequal");
    assert!(a.cmp(&b) == Ordering::Equal, "equal signatures in different representations order unequal");
    assert!(fnv(&a) == fnv(&b), "equal signatures in different representations hash differently");
    let c = Signature::static_array(&Signature::U16);
    assert!((a == c) == (a.cmp(&c) == Ordering::Equal), "ordering inconsistent with equality");
    kani::cover!(which == 2, "struct");
    core::mem::forget((a, b, c));
}
