//! C06: signature grammar. `validate` (the allocation-free mode of the real winnow grammar) and `from_bytes`
//! against the spec recogniser, for every byte string up to L bytes.
use crate::refmodel::{valid, Limits, SPEC};
use zvariant_utils::signature::{validate, Signature};

pub fn no_format(_: core::fmt::Arguments<'_>) -> String {
    String::new()
}

fn lim() -> Limits {
    Limits {
        maybe: cfg!(feature = "gvariant"),
        ..SPEC
    }
}

macro_rules! validate_all {
    ($h:ident, $L:expr, $U:expr) => {
        #[kani::proof]
        #[kani::unwind($U)]
        #[kani::stub(alloc::fmt::format, no_format)]
        fn $h() {
            let buf: [u8; $L] = kani::any();
            let len: usize = kani::any();
            kani::assume(len <= $L);
            let s = &buf[..len];
            let r = validate(s);
            let real = r.is_ok();
            core::mem::forget(r);
            let model = valid(s, &lim());
            kani::cover!(real && len == $L, "accepted at full length");
            kani::cover!(!real, "rejected");
            assert!(real == model, "signature acceptance differs from the D-Bus grammar");
        }
    };
}

validate_all!(c06_validate_len2, 2, 5);
validate_all!(c06_validate_len3, 3, 6);
validate_all!(c06_validate_len4, 4, 7);
validate_all!(c06_validate_len5, 5, 8);

/// Known gap D2a (dict key must be a basic type) excluded: the model is relaxed to the grammar zbus implements
/// for dict keys, so every *other* difference is still reported.
macro_rules! validate_except_dict_key {
    ($h:ident, $L:expr, $U:expr) => {
        #[kani::proof]
        #[kani::unwind($U)]
        #[kani::stub(alloc::fmt::format, no_format)]
        fn $h() {
            let buf: [u8; $L] = kani::any();
            let len: usize = kani::any();
            kani::assume(len <= $L);
            let s = &buf[..len];
            let r = validate(s);
            let real = r.is_ok();
            core::mem::forget(r);
            let relaxed = Limits { basic_dict_key: false, ..lim() };
            let strict = valid(s, &lim());
            let loose = valid(s, &relaxed);
            kani::cover!(real && len == $L, "accepted at full length");
            kani::cover!(!real, "rejected");
            // outside the known-finding class (strings where strict and relaxed grammars agree) the parser must be exact
            if strict == loose {
                assert!(real == strict, "signature acceptance differs from the D-Bus grammar");
            } else {
                // inside the class the only tolerated behaviour is the listed one: accepted
                assert!(real == loose, "dict-key class: behaviour differs from the listed finding");
            }
        }
    };
}
validate_except_dict_key!(c06_validate_len4_xkey, 4, 7);
validate_except_dict_key!(c06_validate_len5_xkey, 5, 8);
validate_except_dict_key!(c06_validate_len6_xkey, 6, 9);

validate_all!(c06_validate_len1, 1, 4);

/// Template strings with one fully symbolic byte: every byte value at the marked position.
macro_rules! template1 {
    ($h:ident, $tmpl:expr, $at:expr, $U:expr) => {
        #[kani::proof]
        #[kani::unwind($U)]
        #[kani::stub(alloc::fmt::format, no_format)]
        fn $h() {
            let mut buf = *$tmpl;
            buf[$at] = kani::any();
            let s = &buf[..];
            let r = validate(s);
            let real = r.is_ok();
            core::mem::forget(r);
            let r2 = Signature::from_bytes(s);
            let real2 = r2.is_ok();
            if let Ok(sig) = &r2 {
                assert!(sig.string_len() == s.len() || (s.len() > 1 && sig.string_len() == s.len() + 2), "string_len differs from the parsed text");
            }
            core::mem::forget(r2);
            let model = valid(s, &lim());
            kani::cover!(real, "accepted");
            kani::cover!(!real, "rejected");
            assert!(real == model, "validate(): acceptance differs from the D-Bus grammar");
            assert!(real2 == model, "from_bytes(): acceptance differs from the D-Bus grammar");
        }
    };
}
template1!(c06_tmpl_a_x, b"a?", 1, 6);
template1!(c06_tmpl_struct_x, b"(?)", 1, 7);
template1!(c06_tmpl_dict_val, b"a{s?}", 4, 9);
