//! Reference D-Bus marshaller written from the specification ("Marshaling
//! (Wire Format)"), independent of zvariant: fixed-capacity buffer, explicit
//! loops, no serde.

pub const CAP: usize = 64;

#[derive(Clone, Copy)]
pub struct Out {
    pub buf: [u8; CAP],
    pub len: usize,
    /// absolute offset of buf[0] inside the message
    pub base: usize,
    pub big_endian: bool,
}

impl Out {
    pub fn new(base: usize, big_endian: bool) -> Self {
        Out {
            buf: [0; CAP],
            len: 0,
            base,
            big_endian,
        }
    }
    pub fn push(&mut self, b: u8) {
        self.buf[self.len] = b;
        self.len += 1;
    }
    /// zero padding up to a multiple of `align` of the *absolute* offset
    pub fn align(&mut self, align: usize) {
        while (self.base + self.len) % align != 0 {
            self.push(0);
        }
    }
    pub fn u8(&mut self, v: u8) {
        self.push(v);
    }
    pub fn fixed(&mut self, v: u64, n: usize) {
        self.align(n);
        let mut i = 0;
        while i < n {
            let shift = if self.big_endian { 8 * (n - 1 - i) } else { 8 * i };
            self.push((v >> shift) as u8);
            i += 1;
        }
    }
    pub fn u16(&mut self, v: u16) {
        self.fixed(v as u64, 2)
    }
    pub fn u32(&mut self, v: u32) {
        self.fixed(v as u64, 4)
    }
    pub fn u64(&mut self, v: u64) {
        self.fixed(v, 8)
    }
    pub fn boolean(&mut self, v: bool) {
        self.u32(if v { 1 } else { 0 })
    }
    /// STRING / OBJECT_PATH: u32 length, bytes, NUL
    pub fn string(&mut self, s: &[u8]) {
        self.u32(s.len() as u32);
        let mut i = 0;
        while i < s.len() {
            self.push(s[i]);
            i += 1;
        }
        self.push(0);
    }
    /// SIGNATURE: u8 length, bytes, NUL
    pub fn signature(&mut self, s: &[u8]) {
        self.push(s.len() as u8);
        let mut i = 0;
        while i < s.len() {
            self.push(s[i]);
            i += 1;
        }
        self.push(0);
    }
    /// Start of an ARRAY: aligned u32 length placeholder, then padding to the
    /// element alignment (present even for empty arrays). Returns
    /// (index of the length field, index of first element).
    pub fn array_begin(&mut self, elem_align: usize) -> (usize, usize) {
        self.align(4);
        let len_at = self.len;
        self.push(0);
        self.push(0);
        self.push(0);
        self.push(0);
        self.align(elem_align);
        (len_at, self.len)
    }
    /// Back-patch the array length: bytes of element data, excluding the
    /// padding between the length and the first element.
    pub fn array_end(&mut self, mark: (usize, usize)) {
        let n = (self.len - mark.1) as u32;
        let mut i = 0;
        while i < 4 {
            let shift = if self.big_endian { 8 * (3 - i) } else { 8 * i };
            self.buf[mark.0 + i] = (n >> shift) as u8;
            i += 1;
        }
    }
    pub fn struct_begin(&mut self) {
        self.align(8);
    }
    pub fn bytes(&self) -> &[u8] {
        &self.buf[..self.len]
    }
}

/// (-value) mod align for power-of-two align
pub fn padding(value: usize, align: usize) -> usize {
    let r = value % align;
    if r == 0 {
        0
    } else {
        align - r
    }
}

// ===================================================================== decoding side

/// Reference D-Bus *validating reader*, from the spec's "Valid ..." rules:
/// padding must be zero, values must lie inside the buffer, BOOLEAN is 0/1,
/// strings carry a u32 length, are NUL-terminated, contain no NUL and are UTF-8.
pub struct In<'a> {
    pub buf: &'a [u8],
    pub pos: usize,
    pub base: usize,
    pub big_endian: bool,
}

impl<'a> In<'a> {
    pub fn new(buf: &'a [u8], base: usize, big_endian: bool) -> Self {
        In {
            buf,
            pos: 0,
            base,
            big_endian,
        }
    }
    pub fn align(&mut self, align: usize) -> Option<()> {
        while (self.base + self.pos) % align != 0 {
            if self.pos >= self.buf.len() || self.buf[self.pos] != 0 {
                return None;
            }
            self.pos += 1;
        }
        Some(())
    }
    pub fn byte(&mut self) -> Option<u8> {
        if self.pos >= self.buf.len() {
            return None;
        }
        let b = self.buf[self.pos];
        self.pos += 1;
        Some(b)
    }
    pub fn fixed(&mut self, n: usize) -> Option<u64> {
        self.align(n)?;
        if self.buf.len() - self.pos < n {
            return None;
        }
        let mut v: u64 = 0;
        let mut i = 0;
        while i < n {
            let b = self.buf[self.pos + i] as u64;
            let shift = if self.big_endian { 8 * (n - 1 - i) } else { 8 * i };
            v |= b << shift;
            i += 1;
        }
        self.pos += n;
        Some(v)
    }
    pub fn boolean(&mut self) -> Option<bool> {
        match self.fixed(4)? {
            0 => Some(false),
            1 => Some(true),
            _ => None,
        }
    }
    /// STRING / OBJECT_PATH body; returns (start, len) of the text inside `buf`.
    pub fn string(&mut self) -> Option<(usize, usize)> {
        let len = self.fixed(4)? as usize;
        self.text(len)
    }
    /// SIGNATURE body: u8 length
    pub fn signature(&mut self) -> Option<(usize, usize)> {
        let len = self.byte()? as usize;
        self.text(len)
    }
    fn text(&mut self, len: usize) -> Option<(usize, usize)> {
        let avail = self.buf.len() - self.pos;
        // text + terminating NUL must be inside the buffer
        if len >= avail {
            return None;
        }
        let start = self.pos;
        let mut i = 0;
        while i < len {
            if self.buf[start + i] == 0 {
                return None;
            }
            i += 1;
        }
        if self.buf[start + len] != 0 {
            return None;
        }
        if !utf8_valid(&self.buf[start..start + len]) {
            return None;
        }
        self.pos = start + len + 1;
        Some((start, len))
    }
}

/// UTF-8 well-formedness (Unicode Table 3-7), byte loop.
pub fn utf8_valid(s: &[u8]) -> bool {
    let mut i = 0;
    while i < s.len() {
        let b0 = s[i];
        if b0 < 0x80 {
            i += 1;
            continue;
        }
        let (need, lo, hi) = if b0 >= 0xC2 && b0 <= 0xDF {
            (1usize, 0x80u8, 0xBFu8)
        } else if b0 == 0xE0 {
            (2, 0xA0, 0xBF)
        } else if (b0 >= 0xE1 && b0 <= 0xEC) || b0 == 0xEE || b0 == 0xEF {
            (2, 0x80, 0xBF)
        } else if b0 == 0xED {
            (2, 0x80, 0x9F)
        } else if b0 == 0xF0 {
            (3, 0x90, 0xBF)
        } else if b0 >= 0xF1 && b0 <= 0xF3 {
            (3, 0x80, 0xBF)
        } else if b0 == 0xF4 {
            (3, 0x80, 0x8F)
        } else {
            return false;
        };
        if s.len() - i <= need {
            return false;
        }
        let b1 = s[i + 1];
        if b1 < lo || b1 > hi {
            return false;
        }
        let mut k = 2;
        while k <= need {
            let b = s[i + k];
            if b < 0x80 || b > 0xBF {
                return false;
            }
            k += 1;
        }
        i += need + 1;
    }
    true
}

#[cfg(test)]
mod tests {
    use super::*;
    #[test]
    fn utf8_model_matches_std() {
        // exhaustive over all 1- and 2-byte strings, sampled 3/4-byte
        for a in 0..=255u8 {
            assert_eq!(utf8_valid(&[a]), core::str::from_utf8(&[a]).is_ok());
            for b in 0..=255u8 {
                assert_eq!(utf8_valid(&[a, b]), core::str::from_utf8(&[a, b]).is_ok());
            }
        }
        for a in [0xE0u8, 0xE1, 0xEC, 0xED, 0xEE, 0xEF, 0xF0, 0xF1, 0xF4, 0xF5, 0x7f, 0xC2] {
            for b in 0..=255u8 {
                for c in [0x00u8, 0x7f, 0x80, 0xBF, 0xC0] {
                    assert_eq!(utf8_valid(&[a, b, c]), core::str::from_utf8(&[a, b, c]).is_ok());
                    assert_eq!(utf8_valid(&[a, b, c, 0x80]), core::str::from_utf8(&[a, b, c, 0x80]).is_ok());
                }
            }
        }
    }
    #[test]
    fn marshal_spec_examples() {
        // from the D-Bus spec text: a STRING "foo" is 03 00 00 00 66 6f 6f 00 (LE)
        let mut o = Out::new(0, false);
        o.string(b"foo");
        assert_eq!(o.bytes(), &[3, 0, 0, 0, b'f', b'o', b'o', 0]);
        // array of int64 with one element at offset 0: len=8, 4 bytes padding, element
        let mut o = Out::new(0, false);
        let m = o.array_begin(8);
        o.u64(5);
        o.array_end(m);
        assert_eq!(o.bytes(), &[8, 0, 0, 0, 0, 0, 0, 0, 5, 0, 0, 0, 0, 0, 0, 0]);
        // same bytes must be produced by zvariant for these (model validation against the real encoder)
        let ctxt = zvariant::serialized::Context::new_dbus(zvariant::LE, 0);
        assert_eq!(zvariant::to_bytes(ctxt, "foo").unwrap().bytes(), &[3, 0, 0, 0, b'f', b'o', b'o', 0]);
        assert_eq!(zvariant::to_bytes(ctxt, &vec![5u64]).unwrap().bytes(), o.bytes());
        let ctxt = zvariant::serialized::Context::new_dbus(zvariant::BE, 3);
        let mut o = Out::new(3, true);
        o.struct_begin();
        o.u8(7);
        o.u32(0x01020304);
        o.string(b"x");
        assert_eq!(zvariant::to_bytes(ctxt, &(7u8, 0x01020304u32, "x")).unwrap().bytes(), o.bytes());
        // reader accepts what the writer wrote
        let mut i = In::new(o.bytes(), 3, true);
        i.align(8).unwrap();
        assert_eq!(i.byte(), Some(7));
        assert_eq!(i.fixed(4), Some(0x01020304));
        assert_eq!(i.string(), Some((o.len - 2, 1)));
    }
}
