//! Reference D-Bus marshaller written from the specification ("Marshaling
//! (Wire Format)"), independent of zvariant: fixed-capacity buffer, explicit
//! loops, no serde.

pub const CAP: usize = 64;

#[derive(Clone, Copy)]
pub struct Out {
    pub buf: [u8; CAP],
    pub len: usize,
    /// absolute offset of buf[0] inside the message
    pub base: usize,
    pub big_endian: bool,
}

impl Out {
    pub fn new(base: usize, big_endian: bool) -> Self {
        Out {
            buf: [0; CAP],
            len: 0,
            base,
            big_endian,
        }
    }
    pub fn push(&mut self, b: u8) {
        self.buf[self.len] = b;
        self.len += 1;
    }
    /// zero padding up to a multiple of `align` of the *absolute* offset
    pub fn align(&mut self, align: usize) {
        while (self.base + self.len) % align != 0 {
            self.push(0);
        }
    }
    pub fn u8(&mut self, v: u8) {
        self.push(v);
    }
    pub fn fixed(&mut self, v: u64, n: usize) {
        self.align(n);
        let mut i = 0;
        while i < n {
            let shift = if self.big_endian { 8 * (n - 1 - i) } else { 8 * i };
            self.push((v >> shift) as u8);
            i += 1;
        }
    }
    pub fn u16(&mut self, v: u16) {
        self.fixed(v as u64, 2)
    }
    pub fn u32(&mut self, v: u32) {
        self.fixed(v as u64, 4)
    }
    pub fn u64(&mut self, v: u64) {
        self.fixed(v, 8)
    }
    pub fn boolean(&mut self, v: bool) {
        self.u32(if v { 1 } else { 0 })
    }
    /// STRING / OBJECT_PATH: u32 length, bytes, NUL
    pub fn string(&mut self, s: &[u8]) {
        self.u32(s.len() as u32);
        let mut i = 0;
        while i < s.len() {
            self.push(s[i]);
            i += 1;
        }
        self.push(0);
    }
    /// SIGNATURE: u8 length, bytes, NUL
    pub fn signature(&mut self, s: &[u8]) {
        self.push(s.len() as u8);
        let mut i = 0;
        while i < s.len() {
            self.push(s[i]);
            i += 1;
        }
        self.push(0);
    }
    /// Start of an ARRAY: aligned u32 length placeholder, then padding to the
    /// element alignment (present even for empty arrays). Returns
    /// (index of the length field, index of first element).
    pub fn array_begin(&mut self, elem_align: usize) -> (usize, usize) {
        self.align(4);
        let len_at = self.len;
        self.push(0);
        self.push(0);
        self.push(0);
        self.push(0);
        self.align(elem_align);
        (len_at, self.len)
    }
    /// Back-patch the array length: bytes of element data, excluding the
    /// padding between the length and the first element.
    pub fn array_end(&mut self, mark: (usize, usize)) {
        let n = (self.len - mark.1) as u32;
        let mut i = 0;
        while i < 4 {
            let shift = if self.big_endian { 8 * (3 - i) } else { 8 * i };
            self.buf[mark.0 + i] = (n >> shift) as u8;
            i += 1;
        }
    }
    pub fn struct_begin(&mut self) {
        self.align(8);
    }
    pub fn bytes(&self) -> &[u8] {
        &self.buf[..self.len]
    }
}

/// (-value) mod align for power-of-two align
pub fn padding(value: usize, align: usize) -> usize {
    let r = value % align;
    if r == 0 {
        0
    } else {
        align - r
    }
}
