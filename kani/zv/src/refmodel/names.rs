//! Reference recognisers written from the D-Bus specification text
//! ("Valid Object Paths", "Valid Names"), not from zbus. Plain byte loops,
//! no allocation, so CBMC can execute them cheaply next to the real parser.

#[inline]
fn is_alpha(b: u8) -> bool {
    (b >= b'a' && b <= b'z') || (b >= b'A' && b <= b'Z')
}
#[inline]
fn is_digit(b: u8) -> bool {
    b >= b'0' && b <= b'9'
}

/// Which characters an element may contain / start with.
#[derive(Clone, Copy)]
pub struct ElemRules {
    pub hyphen: bool,
    pub digit_first: bool,
}

/// `elem ('.' elem)+` with at least `min_elems` elements.
fn dotted(s: &[u8], rules: ElemRules, min_elems: usize) -> bool {
    let mut elems = 0usize;
    let mut cur_len = 0usize;
    let mut i = 0;
    while i < s.len() {
        let b = s[i];
        if b == b'.' {
            if cur_len == 0 {
                return false;
            }
            elems += 1;
            cur_len = 0;
        } else {
            let ok_char = is_alpha(b) || is_digit(b) || b == b'_' || (rules.hyphen && b == b'-');
            if !ok_char {
                return false;
            }
            if cur_len == 0 && is_digit(b) && !rules.digit_first {
                return false;
            }
            cur_len += 1;
        }
        i += 1;
    }
    if cur_len == 0 {
        return false;
    }
    elems += 1;
    elems >= min_elems
}

pub fn unique_name(s: &[u8]) -> bool {
    if s.len() > 255 {
        return false;
    }
    // Documented zbus exception: the bus driver's own name is accepted as a
    // unique name (it is the `sender` of every message from the bus).
    if s == b"org.freedesktop.DBus" {
        return true;
    }
    if s.is_empty() || s[0] != b':' {
        return false;
    }
    dotted(
        &s[1..],
        ElemRules {
            hyphen: true,
            digit_first: true,
        },
        2,
    )
}

pub fn well_known_name(s: &[u8]) -> bool {
    s.len() <= 255
        && dotted(
            s,
            ElemRules {
                hyphen: true,
                digit_first: false,
            },
            2,
        )
}

pub fn bus_name(s: &[u8]) -> bool {
    unique_name(s) || well_known_name(s)
}

pub fn interface_name(s: &[u8]) -> bool {
    s.len() <= 255
        && dotted(
            s,
            ElemRules {
                hyphen: false,
                digit_first: false,
            },
            2,
        )
}

pub fn error_name(s: &[u8]) -> bool {
    interface_name(s)
}

pub fn member_name(s: &[u8]) -> bool {
    if s.is_empty() || s.len() > 255 {
        return false;
    }
    let mut i = 0;
    while i < s.len() {
        let b = s[i];
        if !(is_alpha(b) || b == b'_' || (is_digit(b) && i > 0)) {
            return false;
        }
        i += 1;
    }
    true
}

/// zbus documents property names as any string of 1..=255 bytes.
pub fn property_name(s: &[u8]) -> bool {
    !s.is_empty() && s.len() <= 255
}

pub fn object_path(s: &[u8]) -> bool {
    if s.is_empty() || s[0] != b'/' {
        return false;
    }
    if s.len() == 1 {
        return true;
    }
    let mut prev_slash = true;
    let mut i = 1;
    while i < s.len() {
        let b = s[i];
        if b == b'/' {
            if prev_slash {
                return false;
            }
            prev_slash = true;
        } else {
            if !(is_alpha(b) || is_digit(b) || b == b'_') {
                return false;
            }
            prev_slash = false;
        }
        i += 1;
    }
    !prev_slash
}

