//! Whole-API harnesses for *leaf* signatures (basic types and string-like types):
//! C01 (bytes == spec marshaller, size pass == bytes written), C02 (round trip),
//! C03 (decoder accepts exactly the valid encodings), C04 (no panic on arbitrary bytes).
use super::common::*;
use crate::refmodel::dbus::{In, Out};
use std::io::Cursor;
use zvariant::serialized::Data;
use zvariant::{serialized_size, to_writer_for_signature, ObjectPath, Signature};

// ------------------------------------------------------------------ C01: encode

macro_rules! enc_leaf {
    ($h:ident, $ty:ty, $sig:expr, |$m:ident, $v:ident| $model:expr) => {
        #[kani::proof]
        #[kani::unwind(9)]
        #[kani::stub(alloc::fmt::format, no_format)]
        #[kani::stub(<std::os::fd::OwnedFd as core::ops::Drop>::drop, no_close)]
        fn $h() {
            let $v: $ty = kani::any();
            let (pos, be) = sym_ctx();
            let mut buf = [0u8; 32];
            let mut cur = Cursor::new(&mut buf[..]);
            let r = unsafe { to_writer_for_signature(&mut cur, ctx(pos, be), $sig, &$v) };
            let mut $m = Out::new(pos, be);
            $model;
            match &r {
                Ok(w) => {
                    let n = w.size();
                    kani::cover!(pos % 8 == 7, "odd offset");
                    kani::cover!(be, "big endian");
                    assert!(n == $m.len, "encoded length differs from the D-Bus marshalling rules");
                    assert!(same32(&buf, &model32(&$m)), "encoded bytes differ from the D-Bus marshalling rules");
                }
                Err(_) => assert!(false, "encoding a well-typed value failed"),
            }
            core::mem::forget(r);
        }
    };
}

enc_leaf!(c01_enc_y, u8, Signature::U8, |m, v| m.u8(v));
enc_leaf!(c01_enc_b, bool, Signature::Bool, |m, v| m.boolean(v));
enc_leaf!(c01_enc_n, i16, Signature::I16, |m, v| m.u16(v as u16));
enc_leaf!(c01_enc_q, u16, Signature::U16, |m, v| m.u16(v));
enc_leaf!(c01_enc_i, i32, Signature::I32, |m, v| m.u32(v as u32));
enc_leaf!(c01_enc_u, u32, Signature::U32, |m, v| m.u32(v));
enc_leaf!(c01_enc_x, i64, Signature::I64, |m, v| m.u64(v as u64));
enc_leaf!(c01_enc_t, u64, Signature::U64, |m, v| m.u64(v));
enc_leaf!(c01_enc_d, f64, Signature::F64, |m, v| m.u64(v.to_bits()));

/// size pass (NullWriteSeek) == write pass, per leaf type
macro_rules! size_leaf {
    ($h:ident, $ty:ty, |$m:ident, $v:ident| $model:expr) => {
        #[kani::proof]
        #[kani::unwind(9)]
        #[kani::stub(alloc::fmt::format, no_format)]
        #[kani::stub(<std::os::fd::OwnedFd as core::ops::Drop>::drop, no_close)]
        fn $h() {
            let $v: $ty = kani::any();
            let (pos, be) = sym_ctx();
            let r = serialized_size(ctx(pos, be), &$v);
            let mut $m = Out::new(pos, be);
            $model;
            match &r {
                Ok(s) => {
                    kani::cover!(pos % 8 == 7, "odd offset");
                    assert!(s.size() == $m.len, "size pass differs from the number of bytes the rules prescribe");
                    assert!(s.num_fds() == 0);
                }
                Err(_) => assert!(false, "size pass failed"),
            }
            core::mem::forget(r);
        }
    };
}
size_leaf!(c01_size_y, u8, |m, v| m.u8(v));
size_leaf!(c01_size_q, u16, |m, v| m.u16(v));
size_leaf!(c01_size_u, u32, |m, v| m.u32(v));
size_leaf!(c01_size_t, u64, |m, v| m.u64(v));
size_leaf!(c01_size_b, bool, |m, v| m.boolean(v));

macro_rules! enc_text {
    ($h:ident, $sig:expr, $mk:expr, $mm:ident) => {
        #[kani::proof]
        #[kani::unwind(9)]
        #[kani::stub(alloc::fmt::format, no_format)]
        #[kani::stub(<std::os::fd::OwnedFd as core::ops::Drop>::drop, no_close)]
        fn $h() {
            let (tb, tn) = sym_text3();
            let tb: &'static [u8; 3] = Box::leak(Box::new(tb));
            let s: &'static str = unsafe { core::str::from_utf8_unchecked(&tb[..tn]) };
            let (pos, be) = sym_ctx();
            let mut buf = [0u8; 32];
            let mut cur = Cursor::new(&mut buf[..]);
            let val = $mk(s);
            let r = unsafe { to_writer_for_signature(&mut cur, ctx(pos, be), $sig, &val) };
            let mut m = Out::new(pos, be);
            m.$mm(&tb[..tn]);
            match &r {
                Ok(w) => {
                    let n = w.size();
                    kani::cover!(tn == 3 && pos % 4 == 1, "3-byte text after 3 bytes of padding");
                    kani::cover!(tn == 0, "empty text");
                    assert!(n == m.len, "encoded length differs from the D-Bus marshalling rules");
                    assert!(same32(&buf, &model32(&m)), "encoded bytes differ from the D-Bus marshalling rules");
                }
                Err(_) => assert!(false, "encoding a well-typed value failed"),
            }
            core::mem::forget(r);
            core::mem::forget(val);
        }
    };
}
enc_text!(c01_enc_s, Signature::Str, (|s: &'static str| s), string);
enc_text!(c01_enc_o, Signature::ObjectPath, (|s: &'static str| ObjectPath::from_str_unchecked(s)), string);

// ------------------------------------------------------------------ C03 / C04: decode arbitrary bytes

macro_rules! dec_fixed {
    ($h:ident, $ty:ty, $sig:expr, $n:expr, |$x:ident| $conv:expr) => {
        #[kani::proof]
        #[kani::unwind(9)]
        #[kani::stub(alloc::fmt::format, no_format)]
        #[kani::stub(<std::os::fd::OwnedFd as core::ops::Drop>::drop, no_close)]
        fn $h() {
            let buf: [u8; 16] = kani::any();
            let len: usize = kani::any();
            kani::assume(len <= 16);
            let pos: usize = kani::any();
            kani::assume(pos < 8);
            let be: bool = kani::any();
            let data = Data::new(&buf[..len], ctx(pos, be));
            let r = data.deserialize_for_signature::<_, $ty>($sig);
            let mut rd = In::new(&buf[..len], pos, be);
            let model = rd.fixed($n);
            match (&r, model) {
                (Ok((v, used)), Some($x)) => {
                    kani::cover!(true, "valid encoding accepted");
                    assert!(*used == rd.pos, "consumed byte count differs");
                    let expect: $ty = $conv;
                    assert!(*v == expect || (*v != *v && expect != expect), "decoded value differs");
                }
                (Err(_), None) => {
                    kani::cover!(true, "invalid encoding rejected");
                }
                (Ok(_), None) => assert!(false, "decoder accepted an invalid encoding"),
                (Err(_), Some(_)) => assert!(false, "decoder rejected a valid encoding"),
            }
            core::mem::forget(r);
            core::mem::forget(data);
        }
    };
}
dec_fixed!(c03_dec_y, u8, Signature::U8, 1, |x| x as u8);
dec_fixed!(c03_dec_n, i16, Signature::I16, 2, |x| x as u16 as i16);
dec_fixed!(c03_dec_q, u16, Signature::U16, 2, |x| x as u16);
dec_fixed!(c03_dec_i, i32, Signature::I32, 4, |x| x as u32 as i32);
dec_fixed!(c03_dec_u, u32, Signature::U32, 4, |x| x as u32);
dec_fixed!(c03_dec_x, i64, Signature::I64, 8, |x| x as i64);
dec_fixed!(c03_dec_t, u64, Signature::U64, 8, |x| x);
dec_fixed!(c03_dec_d, f64, Signature::F64, 8, |x| f64::from_bits(x));

#[kani::proof]
#[kani::unwind(9)]
#[kani::stub(alloc::fmt::format, no_format)]
#[kani::stub(<std::os::fd::OwnedFd as core::ops::Drop>::drop, no_close)]
fn c03_dec_b() {
    let buf: [u8; 16] = kani::any();
    let len: usize = kani::any();
    kani::assume(len <= 16);
    let pos: usize = kani::any();
    kani::assume(pos < 8);
    let be: bool = kani::any();
    let data = Data::new(&buf[..len], ctx(pos, be));
    let r = data.deserialize_for_signature::<_, bool>(Signature::Bool);
    let mut rd = In::new(&buf[..len], pos, be);
    let model = rd.boolean();
    match (&r, model) {
        (Ok((v, used)), Some(x)) => {
            kani::cover!(*v, "true decoded");
            assert!(*used == rd.pos && *v == x);
        }
        (Err(_), None) => {
            kani::cover!(len >= 8, "rejected: value other than 0/1 or bad padding");
        }
        (Ok(_), None) => assert!(false, "decoder accepted an invalid BOOLEAN"),
        (Err(_), Some(_)) => assert!(false, "decoder rejected a valid BOOLEAN"),
    }
    core::mem::forget(r);
    core::mem::forget(data);
}

/// Closed-form reference for a STRING / OBJECT_PATH at constant message offset POS inside `buf[..len]`:
/// returns (text start, text length, bytes consumed) when the bytes start with a valid encoding.
/// All indices are constants after unrolling (POS and the candidate length are compile-time / loop constants).
fn ref_string<const POS: usize, const N: usize>(buf: &[u8; N], len: usize, be: bool, content_ok: fn(&[u8]) -> bool) -> Option<(usize, usize, usize)> {
    let pad = (4 - POS % 4) % 4;
    if len < pad + 4 {
        return None;
    }
    let mut i = 0;
    while i < pad {
        if buf[i] != 0 {
            return None;
        }
        i += 1;
    }
    let w = [buf[pad], buf[pad + 1], buf[pad + 2], buf[pad + 3]];
    let l = if be { u32::from_be_bytes(w) } else { u32::from_le_bytes(w) } as usize;
    let start = pad + 4;
    // text and its NUL terminator must lie inside the input
    if l >= len - start {
        return None;
    }
    let mut cand = 0;
    while cand < N - start {
        if l == cand {
            let mut k = 0;
            while k < cand {
                if buf[start + k] == 0 {
                    return None;
                }
                k += 1;
            }
            if buf[start + cand] != 0 {
                return None;
            }
            if !crate::refmodel::dbus::utf8_valid(&buf[start..start + cand]) {
                return None;
            }
            if !content_ok(&buf[start..start + cand]) {
                return None;
            }
            return Some((start, cand, start + cand + 1));
        }
        cand += 1;
    }
    None
}

/// STRING-like types: N bytes of arbitrary input. The message offset is dispatched to a const generic so that all
/// alignment arithmetic is concrete inside each instantiation (one query still covers offsets 0..=3).
macro_rules! dec_text {
    ($h0:ident, $h1:ident, $h2:ident, $h3:ident, $body:ident, $ty:ty, $sig:expr, $N:expr, $U:expr, |$t:ident| $content_ok:expr) => {
        fn $body<const POS: usize>(buf: &[u8; $N], len: usize, be: bool) {
            let data = Data::new(&buf[..len], ctx(POS, be));
            let r = data.deserialize_for_signature::<_, $ty>($sig);
            fn content_ok($t: &[u8]) -> bool {
                $content_ok
            }
            let model = ref_string::<POS, $N>(buf, len, be, content_ok);
            match (&r, model) {
                (Ok((v, used)), Some((start, n, mused))) => {
                    kani::cover!(true, "valid encoding accepted");
                    assert!(*used == mused, "consumed byte count differs");
                    // the decoded text is exactly the n bytes after the length field (borrowed from the input)
                    assert!(v.len() == n, "decoded text length differs");
                    assert!(v.as_ptr() == buf[start..].as_ptr(), "decoded text is not the encoded text");
                }
                (Err(_), None) => {
                    kani::cover!(len == $N, "full-length input rejected");
                }
                (Ok(_), None) => assert!(false, "decoder accepted an invalid encoding"),
                (Err(_), Some(_)) => assert!(false, "decoder rejected a valid encoding"),
            }
            core::mem::forget(r);
            core::mem::forget(data);
        }
        dec_text!(@proof $h0, $body, 0, $N, $U);
        dec_text!(@proof $h1, $body, 1, $N, $U);
        dec_text!(@proof $h2, $body, 2, $N, $U);
        dec_text!(@proof $h3, $body, 3, $N, $U);
    };
    (@proof $h:ident, $body:ident, $pos:expr, $N:expr, $U:expr) => {
        #[kani::proof]
        #[kani::unwind($U)]
        #[kani::stub(alloc::fmt::format, no_format)]
        #[kani::stub(<std::os::fd::OwnedFd as core::ops::Drop>::drop, no_close)]
        #[kani::stub(core::str::from_utf8, naive_from_utf8)]
        #[kani::stub(core::slice::memchr::memchr, naive_memchr)]
        fn $h() {
            let buf: [u8; $N] = kani::any();
            let len: usize = kani::any();
            kani::assume(len <= $N);
            let be: bool = kani::any();
            $body::<$pos>(&buf, len, be);
        }
    };
}
dec_text!(c03_dec_s_p0, c03_dec_s_p1, c03_dec_s_p2, c03_dec_s_p3, c03_dec_s_body, &str, Signature::Str, 8, 10, |_t| true);
dec_text!(c03_dec_o_p0, c03_dec_o_p1, c03_dec_o_p2, c03_dec_o_p3, c03_dec_o_body, ObjectPath<'_>, Signature::ObjectPath, 7, 10, |t| crate::refmodel::names::object_path(t));

/// Dynamic (`Value`) target for string-like signatures: the path taken for every variant payload
/// (`ValueSeed::visit_borrowed_str`), which must apply the same validity rules as the typed path.
macro_rules! dec_text_dyn {
    ($h:ident, $pos:expr, $N:expr, $sig:expr, |$t:ident| $content_ok:expr, |$v:ident| $text:expr) => {
        dec_text_dyn!($h, $pos, $N, kani::any(), $sig, |$t| $content_ok, |$v| $text);
    };
    ($h:ident, $pos:expr, $N:expr, $be:expr, $sig:expr, |$t:ident| $content_ok:expr, |$v:ident| $text:expr) => {
        #[kani::proof]
        #[kani::unwind(10)]
        #[kani::stub(alloc::fmt::format, no_format)]
        #[kani::stub(<std::os::fd::OwnedFd as core::ops::Drop>::drop, no_close)]
        #[kani::stub(core::str::from_utf8, naive_from_utf8)]
        #[kani::stub(core::slice::memchr::memchr, naive_memchr)]
        fn $h() {
            let buf: [u8; $N] = kani::any();
            let len: usize = kani::any();
            kani::assume(len <= $N);
            let be: bool = $be;
            let data = Data::new(&buf[..len], ctx($pos, be));
            let r = data.deserialize_for_dynamic_signature::<_, zvariant::Value<'_>>($sig);
            fn content_ok($t: &[u8]) -> bool {
                $content_ok
            }
            let model = ref_string::<$pos, $N>(&buf, len, be, content_ok);
            match (&r, model) {
                (Ok(($v, used)), Some((start, n, mused))) => {
                    kani::cover!(true, "valid encoding accepted");
                    assert!(*used == mused, "consumed byte count differs");
                    let text: Option<&str> = $text;
                    match text {
                        Some(t) => {
                            assert!(t.len() == n, "decoded text length differs");
                            assert!(t.as_ptr() == buf[start..].as_ptr(), "decoded text is not the encoded text");
                        }
                        None => assert!(false, "decoded value has the wrong variant"),
                    }
                }
                (Err(_), None) => {
                    kani::cover!(len == $N, "full-length input rejected");
                }
                (Ok(_), None) => assert!(false, "decoder accepted an invalid encoding"),
                (Err(_), Some(_)) => assert!(false, "decoder rejected a valid encoding"),
            }
            core::mem::forget(r);
            core::mem::forget(data);
        }
    };
}
dec_text_dyn!(c03_dyn_o_p0, 0, 7, Signature::ObjectPath, |t| crate::refmodel::names::object_path(t), |v| match v {
    zvariant::Value::ObjectPath(p) => Some(p.as_str()),
    _ => None,
});
dec_text_dyn!(c03_dyn_o_p2, 2, 8, Signature::ObjectPath, |t| crate::refmodel::names::object_path(t), |v| match v {
    zvariant::Value::ObjectPath(p) => Some(p.as_str()),
    _ => None,
});
dec_text_dyn!(c03_dyn_s_p0, 0, 7, Signature::Str, |_t| true, |v| match v {
    zvariant::Value::Str(p) => Some(p.as_str()),
    _ => None,
});
dec_text_dyn!(c03_dyn_o_p0_le, 0, 7, false, Signature::ObjectPath, |t| crate::refmodel::names::object_path(t), |v| match v {
    zvariant::Value::ObjectPath(p) => Some(p.as_str()),
    _ => None,
});
dec_text_dyn!(c03_dyn_o_p0_be, 0, 7, true, Signature::ObjectPath, |t| crate::refmodel::names::object_path(t), |v| match v {
    zvariant::Value::ObjectPath(p) => Some(p.as_str()),
    _ => None,
});

// ------------------------------------------------------------------ C01: non-ASCII text (length prefix counts bytes, not characters)
macro_rules! enc_text_utf8 {
    ($h:ident, $pos:expr, $be:expr) => {
        #[kani::proof]
        #[kani::unwind(9)]
        #[kani::stub(alloc::fmt::format, no_format)]
        #[kani::stub(<std::os::fd::OwnedFd as core::ops::Drop>::drop, no_close)]
        fn $h() {
            // one two-byte UTF-8 scalar (U+0080..U+07FF) followed by zero or one ASCII byte
            let lead: u8 = kani::any();
            let cont: u8 = kani::any();
            let tail: u8 = kani::any();
            kani::assume(lead >= 0xC2 && lead <= 0xDF && cont >= 0x80 && cont <= 0xBF && tail != 0 && tail < 0x80);
            let with_tail: bool = kani::any();
            let tb: &'static [u8; 3] = Box::leak(Box::new([lead, cont, tail]));
            let tn = if with_tail { 3 } else { 2 };
            let s: &'static str = unsafe { core::str::from_utf8_unchecked(&tb[..tn]) };
            let be: bool = $be;
            let mut buf = [0u8; 32];
            let mut cur = Cursor::new(&mut buf[..]);
            let r = unsafe { to_writer_for_signature(&mut cur, ctx($pos, be), Signature::Str, s) };
            let mut m = Out::new($pos, be);
            m.string(&tb[..tn]);
            match &r {
                Ok(w) => {
                    kani::cover!(with_tail, "two characters, three bytes");
                    assert!(w.size() == m.len, "non-ASCII text: encoded length differs from the D-Bus marshalling rules");
                    assert!(same32(&buf, &model32(&m)), "non-ASCII text: the length prefix must count bytes, and all bytes must be written");
                }
                Err(_) => assert!(false, "encoding a well-typed value failed"),
            }
            core::mem::forget(r);
        }
    };
}
enc_text_utf8!(c01_enc_s_utf8_le, 1, false);
enc_text_utf8!(c01_enc_s_utf8_be, 0, true);

// Fixed non-ASCII text, symbolic message offset and byte order: the text is concrete so that any per-character loop
// in the encoder folds to a constant (the symbolic-scalar harness above times out, exit 2, on such a change instead
// of producing a counterexample); the quantified inputs here are the offset and the byte order.
macro_rules! enc_text_utf8_fixed {
    ($h:ident, $text:expr) => {
        #[kani::proof]
        #[kani::unwind(9)]
        #[kani::stub(alloc::fmt::format, no_format)]
        #[kani::stub(<std::os::fd::OwnedFd as core::ops::Drop>::drop, no_close)]
        fn $h() {
            const T: &str = $text;
            let (pos, be) = sym_ctx();
            let mut buf = [0u8; 32];
            let mut cur = Cursor::new(&mut buf[..]);
            let r = unsafe { to_writer_for_signature(&mut cur, ctx(pos, be), Signature::Str, T) };
            let mut m = Out::new(pos, be);
            m.string(T.as_bytes());
            match &r {
                Ok(w) => {
                    kani::cover!(pos % 4 == 3, "text after one byte of padding");
                    assert!(w.size() == m.len, "fixed non-ASCII text: encoded length differs from the D-Bus marshalling rules");
                    assert!(same32(&buf, &model32(&m)), "fixed non-ASCII text: the length prefix must count bytes, and all bytes must be written");
                }
                Err(_) => assert!(false, "encoding a well-typed value failed"),
            }
            core::mem::forget(r);
        }
    };
}
enc_text_utf8_fixed!(c01_enc_s_utf8_fixed2, "\u{e9}");
enc_text_utf8_fixed!(c01_enc_s_utf8_fixed3, "\u{20ac}");
