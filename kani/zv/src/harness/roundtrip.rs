//! C02: encode -> decode returns the original value and consumes exactly the encoded length (leaf signatures).
use super::common::*;
use std::io::Cursor;
use zvariant::serialized::{Context, Data};
use zvariant::{to_writer_for_signature, Endian, ObjectPath, Signature};

#[cfg(feature = "gvariant")]
fn ctx_f(gv: bool, pos: usize, be: bool) -> Context {
    let e = if be { Endian::Big } else { Endian::Little };
    if gv {
        Context::new_gvariant(e, pos)
    } else {
        Context::new_dbus(e, pos)
    }
}
#[cfg(not(feature = "gvariant"))]
fn ctx_f(_gv: bool, pos: usize, be: bool) -> Context {
    ctx(pos, be)
}

macro_rules! rt_leaf {
    ($h:ident, $gv:expr, $ty:ty, $sig:expr, |$a:ident, $b:ident| $eq:expr) => {
        #[kani::proof]
        #[kani::unwind(9)]
        #[kani::stub(alloc::fmt::format, no_format)]
        #[kani::stub(<std::os::fd::OwnedFd as core::ops::Drop>::drop, no_close)]
        fn $h() {
            let v: $ty = kani::any();
            let pos: usize = kani::any();
            kani::assume(pos < 8);
            let be: bool = kani::any();
            let c = ctx_f($gv, pos, be);
            let mut buf = [0u8; 16];
            let mut cur = Cursor::new(&mut buf[..]);
            let r = unsafe { to_writer_for_signature(&mut cur, c, $sig, &v) };
            let n = match &r {
                Ok(w) => w.size(),
                Err(_) => {
                    assert!(false, "encoding failed");
                    0
                }
            };
            core::mem::forget(r);
            let data = Data::new(&buf[..n], c);
            let d = data.deserialize_for_signature::<_, $ty>($sig);
            match &d {
                Ok((back, used)) => {
                    kani::cover!(pos == 7, "odd offset");
                    assert!(*used == n, "decoder did not consume exactly the encoded length");
                    let $a = &v;
                    let $b = back;
                    assert!($eq, "round trip changed the value");
                }
                Err(_) => assert!(false, "decoding the library's own encoding failed"),
            }
            core::mem::forget(d);
            core::mem::forget(data);
        }
    };
}

rt_leaf!(c02_rt_dbus_y, false, u8, Signature::U8, |a, b| a == b);
rt_leaf!(c02_rt_dbus_b, false, bool, Signature::Bool, |a, b| a == b);
rt_leaf!(c02_rt_dbus_n, false, i16, Signature::I16, |a, b| a == b);
rt_leaf!(c02_rt_dbus_q, false, u16, Signature::U16, |a, b| a == b);
rt_leaf!(c02_rt_dbus_i, false, i32, Signature::I32, |a, b| a == b);
rt_leaf!(c02_rt_dbus_u, false, u32, Signature::U32, |a, b| a == b);
rt_leaf!(c02_rt_dbus_x, false, i64, Signature::I64, |a, b| a == b);
rt_leaf!(c02_rt_dbus_t, false, u64, Signature::U64, |a, b| a == b);
rt_leaf!(c02_rt_dbus_d, false, f64, Signature::F64, |a, b| a.to_bits() == b.to_bits());
// Rust types without a D-Bus type of their own: f32 travels as DOUBLE, i8 as INT16
rt_leaf!(c02_rt_dbus_f32, false, f32, Signature::F64, |a, b| if a.is_nan() { b.is_nan() } else { a.to_bits() == b.to_bits() });
rt_leaf!(c02_rt_dbus_i8, false, i8, Signature::I16, |a, b| a == b);

#[cfg(feature = "gvariant")]
mod gv {
    use super::*;
    rt_leaf!(c02_rt_gv_y, true, u8, Signature::U8, |a, b| a == b);
    rt_leaf!(c02_rt_gv_b, true, bool, Signature::Bool, |a, b| a == b);
    rt_leaf!(c02_rt_gv_q, true, u16, Signature::U16, |a, b| a == b);
    rt_leaf!(c02_rt_gv_u, true, u32, Signature::U32, |a, b| a == b);
    rt_leaf!(c02_rt_gv_t, true, u64, Signature::U64, |a, b| a == b);
    rt_leaf!(c02_rt_gv_d, true, f64, Signature::F64, |a, b| a.to_bits() == b.to_bits());
}

macro_rules! rt_text {
    ($h:ident, $gv:expr, $pos:expr, $n:expr, $sig:expr) => {
        rt_text!($h, $gv, $pos, $n, $sig, kani::any());
    };
    ($h:ident, $gv:expr, $pos:expr, $n:expr, $sig:expr, $be:expr) => {
        #[kani::proof]
        #[kani::unwind(9)]
        #[kani::stub(alloc::fmt::format, no_format)]
        #[kani::stub(<std::os::fd::OwnedFd as core::ops::Drop>::drop, no_close)]
        #[kani::stub(core::str::from_utf8, naive_from_utf8)]
        #[kani::stub(core::slice::memchr::memchr, naive_memchr)]
        fn $h() {
            let (tb, _) = sym_text3();
            let tn: usize = $n;
            let tb: &'static [u8; 3] = Box::leak(Box::new(tb));
            let s: &'static str = unsafe { core::str::from_utf8_unchecked(&tb[..tn]) };
            let be: bool = $be;
            let c = ctx_f($gv, $pos, be);
            let mut buf = [0u8; 16];
            let mut cur = Cursor::new(&mut buf[..]);
            let r = unsafe { to_writer_for_signature(&mut cur, c, $sig, s) };
            let n = match &r {
                Ok(w) => w.size(),
                Err(_) => {
                    assert!(false, "encoding failed");
                    0
                }
            };
            core::mem::forget(r);
            let data = Data::new(&buf[..n], c);
            let d = data.deserialize_for_signature::<_, &str>($sig);
            match &d {
                Ok((back, used)) => {
                    kani::cover!(true, "round trip completed");
                    assert!(*used == n, "decoder did not consume exactly the encoded length");
                    let bb = back.as_bytes();
                    assert!(bb.len() == tn, "round trip changed the text length");
                    assert!(
                        (tn < 1 || bb[0] == tb[0]) && (tn < 2 || bb[1] == tb[1]) && (tn < 3 || bb[2] == tb[2]),
                        "round trip changed the text"
                    );
                }
                Err(_) => assert!(false, "decoding the library's own encoding failed"),
            }
            core::mem::forget(d);
            core::mem::forget(data);
        }
    };
}
rt_text!(c02_rt_dbus_s_n0_le, false, 0, 0, Signature::Str, false);
#[cfg(feature = "gvariant")]
rt_text!(c02_rt_gv_s_n0_le, true, 0, 0, Signature::Str, false);
rt_text!(c02_rt_dbus_s_n0_be, false, 0, 0, Signature::Str, true);
#[cfg(feature = "gvariant")]
rt_text!(c02_rt_gv_s_n0_be, true, 0, 0, Signature::Str, true);
rt_text!(c02_rt_dbus_s_n1_le, false, 3, 1, Signature::Str, false);
#[cfg(feature = "gvariant")]
rt_text!(c02_rt_gv_s_n1_le, true, 3, 1, Signature::Str, false);
rt_text!(c02_rt_dbus_s_n1_be, false, 3, 1, Signature::Str, true);
#[cfg(feature = "gvariant")]
rt_text!(c02_rt_gv_s_n1_be, true, 3, 1, Signature::Str, true);
rt_text!(c02_rt_dbus_s_n3_le, false, 1, 3, Signature::Str, false);
#[cfg(feature = "gvariant")]
rt_text!(c02_rt_gv_s_n3_le, true, 1, 3, Signature::Str, false);
rt_text!(c02_rt_dbus_s_n3_be, false, 1, 3, Signature::Str, true);
#[cfg(feature = "gvariant")]
rt_text!(c02_rt_gv_s_n3_be, true, 1, 3, Signature::Str, true);
