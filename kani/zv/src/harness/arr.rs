//! C01/C02/C03 for one-level arrays of fixed-size elements through the public API.
use super::common::*;
use crate::refmodel::dbus::{In, Out};
use std::io::Cursor;
use zvariant::serialized::Data;
use zvariant::{to_writer_for_signature, Signature};

macro_rules! enc_array {
    ($h:ident, $pos:expr, $k:expr, $ty:ty, $esz:expr, $elem_sig:expr, $K:expr, |$m:ident, $v:ident| $put:expr) => {
        #[kani::proof]
        #[kani::unwind(9)]
        #[kani::stub(alloc::fmt::format, no_format)]
        #[kani::stub(<std::os::fd::OwnedFd as core::ops::Drop>::drop, no_close)]
        fn $h() {
            let vals: [$ty; $K] = kani::any();
            let k: usize = $k;
            let pos: usize = $pos;
            let be: bool = kani::any();
            let mut buf = [0u8; 32];
            let mut cur = Cursor::new(&mut buf[..]);
            let r = unsafe {
                to_writer_for_signature(&mut cur, ctx(pos, be), Signature::static_array(&$elem_sig), &vals[..k])
            };
            let mut $m = Out::new(pos, be);
            let mark = $m.array_begin($esz);
            let mut i = 0;
            while i < k {
                let $v = vals[i];
                $put;
                i += 1;
            }
            $m.array_end(mark);
            match &r {
                Ok(w) => {
                    kani::cover!(be, "big endian");
                    kani::cover!(!be, "little endian");
                    assert!(w.size() == $m.len, "array: encoded length differs from the D-Bus marshalling rules");
                    assert!(same32(&buf, &model32(&$m)), "array: encoded bytes differ from the D-Bus marshalling rules");
                }
                Err(_) => assert!(false, "encoding a well-typed array failed"),
            }
            core::mem::forget(r);
        }
    };
}
enc_array!(c01_enc_ay_p0_k0, 0, 0, u8, 1, Signature::U8, 2, |m, v| m.u8(v));
enc_array!(c01_enc_ay_p0_k1, 0, 1, u8, 1, Signature::U8, 2, |m, v| m.u8(v));
enc_array!(c01_enc_ay_p0_k2, 0, 2, u8, 1, Signature::U8, 2, |m, v| m.u8(v));
enc_array!(c01_enc_ay_p3_k0, 3, 0, u8, 1, Signature::U8, 2, |m, v| m.u8(v));
enc_array!(c01_enc_ay_p3_k1, 3, 1, u8, 1, Signature::U8, 2, |m, v| m.u8(v));
enc_array!(c01_enc_ay_p3_k2, 3, 2, u8, 1, Signature::U8, 2, |m, v| m.u8(v));
enc_array!(c01_enc_ay_p4_k0, 4, 0, u8, 1, Signature::U8, 2, |m, v| m.u8(v));
enc_array!(c01_enc_ay_p4_k1, 4, 1, u8, 1, Signature::U8, 2, |m, v| m.u8(v));
enc_array!(c01_enc_ay_p4_k2, 4, 2, u8, 1, Signature::U8, 2, |m, v| m.u8(v));
enc_array!(c01_enc_aq_p0_k0, 0, 0, u16, 2, Signature::U16, 2, |m, v| m.u16(v));
enc_array!(c01_enc_aq_p0_k1, 0, 1, u16, 2, Signature::U16, 2, |m, v| m.u16(v));
enc_array!(c01_enc_aq_p0_k2, 0, 2, u16, 2, Signature::U16, 2, |m, v| m.u16(v));
enc_array!(c01_enc_aq_p3_k0, 3, 0, u16, 2, Signature::U16, 2, |m, v| m.u16(v));
enc_array!(c01_enc_aq_p3_k1, 3, 1, u16, 2, Signature::U16, 2, |m, v| m.u16(v));
enc_array!(c01_enc_aq_p3_k2, 3, 2, u16, 2, Signature::U16, 2, |m, v| m.u16(v));
enc_array!(c01_enc_aq_p4_k0, 4, 0, u16, 2, Signature::U16, 2, |m, v| m.u16(v));
enc_array!(c01_enc_aq_p4_k1, 4, 1, u16, 2, Signature::U16, 2, |m, v| m.u16(v));
enc_array!(c01_enc_aq_p4_k2, 4, 2, u16, 2, Signature::U16, 2, |m, v| m.u16(v));
enc_array!(c01_enc_au_p0_k0, 0, 0, u32, 4, Signature::U32, 2, |m, v| m.u32(v));
enc_array!(c01_enc_au_p0_k1, 0, 1, u32, 4, Signature::U32, 2, |m, v| m.u32(v));
enc_array!(c01_enc_au_p0_k2, 0, 2, u32, 4, Signature::U32, 2, |m, v| m.u32(v));
enc_array!(c01_enc_au_p3_k0, 3, 0, u32, 4, Signature::U32, 2, |m, v| m.u32(v));
enc_array!(c01_enc_au_p3_k1, 3, 1, u32, 4, Signature::U32, 2, |m, v| m.u32(v));
enc_array!(c01_enc_au_p3_k2, 3, 2, u32, 4, Signature::U32, 2, |m, v| m.u32(v));
enc_array!(c01_enc_au_p4_k0, 4, 0, u32, 4, Signature::U32, 2, |m, v| m.u32(v));
enc_array!(c01_enc_au_p4_k1, 4, 1, u32, 4, Signature::U32, 2, |m, v| m.u32(v));
enc_array!(c01_enc_au_p4_k2, 4, 2, u32, 4, Signature::U32, 2, |m, v| m.u32(v));
enc_array!(c01_enc_at_p0_k0, 0, 0, u64, 8, Signature::U64, 2, |m, v| m.u64(v));
enc_array!(c01_enc_at_p0_k1, 0, 1, u64, 8, Signature::U64, 2, |m, v| m.u64(v));
enc_array!(c01_enc_at_p0_k2, 0, 2, u64, 8, Signature::U64, 2, |m, v| m.u64(v));
enc_array!(c01_enc_at_p3_k0, 3, 0, u64, 8, Signature::U64, 2, |m, v| m.u64(v));
enc_array!(c01_enc_at_p3_k1, 3, 1, u64, 8, Signature::U64, 2, |m, v| m.u64(v));
enc_array!(c01_enc_at_p3_k2, 3, 2, u64, 8, Signature::U64, 2, |m, v| m.u64(v));
enc_array!(c01_enc_at_p4_k0, 4, 0, u64, 8, Signature::U64, 2, |m, v| m.u64(v));
enc_array!(c01_enc_at_p4_k1, 4, 1, u64, 8, Signature::U64, 2, |m, v| m.u64(v));
enc_array!(c01_enc_at_p4_k2, 4, 2, u64, 8, Signature::U64, 2, |m, v| m.u64(v));
