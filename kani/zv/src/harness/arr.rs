//! C01/C02/C03 for one-level arrays of fixed-size elements through the public API.
use super::common::*;
use crate::refmodel::dbus::{In, Out};
use std::io::Cursor;
use zvariant::serialized::Data;
use zvariant::{to_writer_for_signature, Signature};

macro_rules! enc_array {
    ($h:ident, $pos:expr, $k:expr, $ty:ty, $esz:expr, $elem_sig:expr, $K:expr, |$m:ident, $v:ident| $put:expr) => {
        #[kani::proof]
        #[kani::unwind(9)]
        #[kani::stub(alloc::fmt::format, no_format)]
        #[kani::stub(<std::os::fd::OwnedFd as core::ops::Drop>::drop, no_close)]
        fn $h() {
            let vals: [$ty; $K] = kani::any();
            let k: usize = $k;
            let pos: usize = $pos;
            let be: bool = kani::any();
            let mut buf = [0u8; 32];
            let mut cur = Cursor::new(&mut buf[..]);
            let r = unsafe {
                to_writer_for_signature(&mut cur, ctx(pos, be), Signature::static_array(&$elem_sig), &vals[..k])
            };
            let mut $m = Out::new(pos, be);
            let mark = $m.array_begin($esz);
            let mut i = 0;
            while i < k {
                let $v = vals[i];
                $put;
                i += 1;
            }
            $m.array_end(mark);
            match &r {
                Ok(w) => {
                    kani::cover!(be, "big endian");
                    kani::cover!(!be, "little endian");
                    assert!(w.size() == $m.len, "array: encoded length differs from the D-Bus marshalling rules");
                    assert!(same32(&buf, &model32(&$m)), "array: encoded bytes differ from the D-Bus marshalling rules");
                }
                Err(_) => assert!(false, "encoding a well-typed array failed"),
            }
            core::mem::forget(r);
        }
    };
}
enc_array!(c01_enc_ay_p0_k0, 0, 0, u8, 1, Signature::U8, 2, |m, v| m.u8(v));
enc_array!(c01_enc_ay_p0_k1, 0, 1, u8, 1, Signature::U8, 2, |m, v| m.u8(v));
enc_array!(c01_enc_ay_p0_k2, 0, 2, u8, 1, Signature::U8, 2, |m, v| m.u8(v));
enc_array!(c01_enc_ay_p3_k0, 3, 0, u8, 1, Signature::U8, 2, |m, v| m.u8(v));
enc_array!(c01_enc_ay_p3_k1, 3, 1, u8, 1, Signature::U8, 2, |m, v| m.u8(v));
enc_array!(c01_enc_ay_p3_k2, 3, 2, u8, 1, Signature::U8, 2, |m, v| m.u8(v));
enc_array!(c01_enc_ay_p4_k0, 4, 0, u8, 1, Signature::U8, 2, |m, v| m.u8(v));
enc_array!(c01_enc_ay_p4_k1, 4, 1, u8, 1, Signature::U8, 2, |m, v| m.u8(v));
enc_array!(c01_enc_ay_p4_k2, 4, 2, u8, 1, Signature::U8, 2, |m, v| m.u8(v));
enc_array!(c01_enc_aq_p0_k0, 0, 0, u16, 2, Signature::U16, 2, |m, v| m.u16(v));
enc_array!(c01_enc_aq_p0_k1, 0, 1, u16, 2, Signature::U16, 2, |m, v| m.u16(v));
enc_array!(c01_enc_aq_p0_k2, 0, 2, u16, 2, Signature::U16, 2, |m, v| m.u16(v));
enc_array!(c01_enc_aq_p3_k0, 3, 0, u16, 2, Signature::U16, 2, |m, v| m.u16(v));
enc_array!(c01_enc_aq_p3_k1, 3, 1, u16, 2, Signature::U16, 2, |m, v| m.u16(v));
enc_array!(c01_enc_aq_p3_k2, 3, 2, u16, 2, Signature::U16, 2, |m, v| m.u16(v));
enc_array!(c01_enc_aq_p4_k0, 4, 0, u16, 2, Signature::U16, 2, |m, v| m.u16(v));
enc_array!(c01_enc_aq_p4_k1, 4, 1, u16, 2, Signature::U16, 2, |m, v| m.u16(v));
enc_array!(c01_enc_aq_p4_k2, 4, 2, u16, 2, Signature::U16, 2, |m, v| m.u16(v));
enc_array!(c01_enc_au_p0_k0, 0, 0, u32, 4, Signature::U32, 2, |m, v| m.u32(v));
enc_array!(c01_enc_au_p0_k1, 0, 1, u32, 4, Signature::U32, 2, |m, v| m.u32(v));
enc_array!(c01_enc_au_p0_k2, 0, 2, u32, 4, Signature::U32, 2, |m, v| m.u32(v));
enc_array!(c01_enc_au_p3_k0, 3, 0, u32, 4, Signature::U32, 2, |m, v| m.u32(v));
enc_array!(c01_enc_au_p3_k1, 3, 1, u32, 4, Signature::U32, 2, |m, v| m.u32(v));
enc_array!(c01_enc_au_p3_k2, 3, 2, u32, 4, Signature::U32, 2, |m, v| m.u32(v));
enc_array!(c01_enc_au_p4_k0, 4, 0, u32, 4, Signature::U32, 2, |m, v| m.u32(v));
enc_array!(c01_enc_au_p4_k1, 4, 1, u32, 4, Signature::U32, 2, |m, v| m.u32(v));
enc_array!(c01_enc_au_p4_k2, 4, 2, u32, 4, Signature::U32, 2, |m, v| m.u32(v));
enc_array!(c01_enc_at_p0_k0, 0, 0, u64, 8, Signature::U64, 2, |m, v| m.u64(v));
enc_array!(c01_enc_at_p0_k1, 0, 1, u64, 8, Signature::U64, 2, |m, v| m.u64(v));
enc_array!(c01_enc_at_p0_k2, 0, 2, u64, 8, Signature::U64, 2, |m, v| m.u64(v));
enc_array!(c01_enc_at_p3_k0, 3, 0, u64, 8, Signature::U64, 2, |m, v| m.u64(v));
enc_array!(c01_enc_at_p3_k1, 3, 1, u64, 8, Signature::U64, 2, |m, v| m.u64(v));
enc_array!(c01_enc_at_p3_k2, 3, 2, u64, 8, Signature::U64, 2, |m, v| m.u64(v));
enc_array!(c01_enc_at_p4_k0, 4, 0, u64, 8, Signature::U64, 2, |m, v| m.u64(v));
enc_array!(c01_enc_at_p4_k1, 4, 1, u64, 8, Signature::U64, 2, |m, v| m.u64(v));
enc_array!(c01_enc_at_p4_k2, 4, 2, u64, 8, Signature::U64, 2, |m, v| m.u64(v));

// ------------------------------------------------------------------ C03: decoding arrays from arbitrary bytes

/// Allocation-free decode target: an array of at most 2 fixed-size elements (more elements => custom error,
/// which cannot happen within the input bound).
pub struct Arr2<T> {
    pub n: usize,
    pub v: [T; 2],
}
impl<'de, T: serde::Deserialize<'de> + Default + Copy> serde::Deserialize<'de> for Arr2<T> {
    fn deserialize<D: serde::Deserializer<'de>>(d: D) -> Result<Self, D::Error> {
        struct V<T>(core::marker::PhantomData<T>);
        impl<'de, T: serde::Deserialize<'de> + Default + Copy> serde::de::Visitor<'de> for V<T> {
            type Value = Arr2<T>;
            fn expecting(&self, _: &mut std::fmt::Formatter<'_>) -> std::fmt::Result {
                Ok(())
            }
            fn visit_seq<A: serde::de::SeqAccess<'de>>(self, mut seq: A) -> Result<Arr2<T>, A::Error> {
                let mut out = Arr2 { n: 0, v: [T::default(); 2] };
                while let Some(x) = seq.next_element::<T>()? {
                    assert!(out.n < 2, "more elements than the input bound allows");
                    out.v[out.n] = x;
                    out.n += 1;
                }
                Ok(out)
            }
        }
        d.deserialize_seq(V(core::marker::PhantomData))
    }
}

/// Closed-form reference for `a<fixed>` at constant offset POS over N input bytes: Some((count, elems, consumed)).
/// Valid iff: zero padding to 4, u32 byte length L inside the buffer, zero padding to the element alignment (present
/// even when L == 0), L a multiple of the element size (the array ends on an element boundary), L bytes available.
fn ref_array<const POS: usize, const N: usize, const ESZ: usize>(
    buf: &[u8; N],
    len: usize,
    be: bool,
) -> Option<(usize, [u64; 2], usize)> {
    let p0 = (4 - POS % 4) % 4;
    let len_at = p0;
    let after_len = len_at + 4;
    let p1 = (ESZ - (POS + after_len) % ESZ) % ESZ;
    let first = after_len + p1;
    if len < first {
        return None;
    }
    let mut i = 0;
    while i < p0 {
        if buf[i] != 0 {
            return None;
        }
        i += 1;
    }
    let w = [buf[len_at], buf[len_at + 1], buf[len_at + 2], buf[len_at + 3]];
    let l = if be { u32::from_be_bytes(w) } else { u32::from_le_bytes(w) } as usize;
    let mut i = 0;
    while i < p1 {
        if buf[after_len + i] != 0 {
            return None;
        }
        i += 1;
    }
    if l > len - first || l % ESZ != 0 {
        return None;
    }
    let count = l / ESZ;
    let mut elems = [0u64; 2];
    let mut c = 0;
    while c < 2 && c < (N - first) / ESZ {
        if c < count {
            let mut v: u64 = 0;
            let mut k = 0;
            while k < ESZ {
                let b = buf[first + c * ESZ + k] as u64;
                let shift = if be { 8 * (ESZ - 1 - k) } else { 8 * k };
                v |= b << shift;
                k += 1;
            }
            elems[c] = v;
        }
        c += 1;
    }
    Some((count, elems, first + l))
}

macro_rules! dec_array {
    ($h:ident, $pos:expr, $N:expr, $ty:ty, $esz:expr, $elem_sig:expr) => {
        dec_array!($h, $pos, $N, $ty, $esz, $elem_sig, kani::any());
    };
    ($h:ident, $pos:expr, $N:expr, $ty:ty, $esz:expr, $elem_sig:expr, $be:expr) => {
        #[kani::proof]
        #[kani::unwind(10)]
        #[kani::stub(alloc::fmt::format, no_format)]
        #[kani::stub(<std::os::fd::OwnedFd as core::ops::Drop>::drop, no_close)]
        fn $h() {
            let buf: [u8; $N] = kani::any();
            // the input is exactly N bytes (truncated inputs are covered for the leaf types; here the array
            // length field itself decides how much of the buffer is consumed)
            let len: usize = $N;
            let be: bool = $be;
            let data = Data::new(&buf[..len], ctx($pos, be));
            let r = data.deserialize_for_signature::<_, Arr2<$ty>>(Signature::static_array(&$elem_sig));
            let model = ref_array::<$pos, $N, $esz>(&buf, len, be);
            match (&r, model) {
                (Ok((a, used)), Some((count, elems, mused))) => {
                    kani::cover!(count >= 1, "non-empty array accepted");
                    kani::cover!(count == 0, "empty array accepted");
                    assert!(*used == mused, "array: consumed byte count differs");
                    assert!(a.n == count, "array: element count differs");
                    assert!(count < 1 || a.v[0] as u64 == elems[0], "array: element 0 differs");
                    assert!(count < 2 || a.v[1] as u64 == elems[1], "array: element 1 differs");
                }
                (Err(_), None) => {
                    kani::cover!(true, "invalid encoding rejected");
                }
                (Ok(_), None) => assert!(false, "array decoder accepted an invalid encoding"),
                (Err(_), Some(_)) => assert!(false, "array decoder rejected a valid encoding"),
            }
            core::mem::forget(r);
            core::mem::forget(data);
        }
    };
}
dec_array!(c03_dec_ay_p0_le, 0, 6, u8, 1, Signature::U8, false);
dec_array!(c03_dec_ay_p0_be, 0, 6, u8, 1, Signature::U8, true);
dec_array!(c03_dec_ay_p3_le, 3, 7, u8, 1, Signature::U8, false);
dec_array!(c03_dec_ay_p3_be, 3, 7, u8, 1, Signature::U8, true);
dec_array!(c03_dec_aq_p0_le, 0, 8, u16, 2, Signature::U16, false);
dec_array!(c03_dec_aq_p0_be, 0, 8, u16, 2, Signature::U16, true);
dec_array!(c03_dec_au_p0_le, 0, 12, u32, 4, Signature::U32, false);
dec_array!(c03_dec_au_p0_be, 0, 12, u32, 4, Signature::U32, true);
dec_array!(c03_dec_au_p2_le, 2, 14, u32, 4, Signature::U32, false);
dec_array!(c03_dec_au_p2_be, 2, 14, u32, 4, Signature::U32, true);
dec_array!(c03_dec_at_p4_le, 4, 12, u64, 8, Signature::U64, false);
dec_array!(c03_dec_at_p4_be, 4, 12, u64, 8, Signature::U64, true);

// ------------------------------------------------------------------ C01: file descriptors (array of two distinct fds)
/// Environment stub: duplicating a descriptor (fcntl F_DUPFD_CLOEXEC). Returns a fresh descriptor number.
pub fn fake_dup<'a>(fd: &std::os::fd::BorrowedFd<'a>) -> std::io::Result<std::os::fd::OwnedFd>
where
    'a: 'a,
{
    use std::os::fd::{AsRawFd, FromRawFd};
    Ok(unsafe { std::os::fd::OwnedFd::from_raw_fd(fd.as_raw_fd() + 100) })
}

macro_rules! enc_fds {
    ($h:ident, $pos:expr) => {
        enc_fds!($h, $pos, kani::any());
    };
    ($h:ident, $pos:expr, $be:expr) => {
        #[kani::proof]
        #[kani::unwind(9)]
        #[kani::stub(alloc::fmt::format, no_format)]
        #[kani::stub(<std::os::fd::OwnedFd as core::ops::Drop>::drop, no_close)]
        #[kani::stub(std::os::fd::BorrowedFd::try_clone_to_owned, fake_dup)]
        fn $h() {
            use std::os::fd::BorrowedFd;
            let same: bool = kani::any();
            let a = unsafe { BorrowedFd::borrow_raw(5) };
            let b = unsafe { BorrowedFd::borrow_raw(if same { 5 } else { 6 }) };
            let vals = [zvariant::Fd::from(a), zvariant::Fd::from(b)];
            let be: bool = $be;
            let mut buf = [0u8; 32];
            let mut cur = Cursor::new(&mut buf[..]);
            let r = unsafe {
                to_writer_for_signature(&mut cur, ctx($pos, be), Signature::static_array(&Signature::Fd), &vals[..])
            };
            let mut m = Out::new($pos, be);
            let mark = m.array_begin(4);
            // every serialized descriptor gets the next index in the attached list (the library dups each one;
            // its "already attached" lookup compares the dup'ed number with the original and therefore never hits)
            m.u32(0);
            m.u32(1);
            m.array_end(mark);
            match &r {
                Ok(w) => {
                    kani::cover!(!same, "two distinct descriptors");
                    assert!(w.size() == m.len, "fd array: encoded length differs");
                    assert!(same32(&buf, &model32(&m)), "fd array: indices are not the u32 positions in the attached list (in message byte order)");
                    assert!(w.fds().len() == 2, "fd array: number of attached descriptors differs from the number of indices written");
                }
                Err(_) => assert!(false, "encoding descriptors failed"),
            }
            core::mem::forget(r);
            core::mem::forget(vals);
        }
    };
}
enc_fds!(c01_enc_ah_p0, 0);
enc_fds!(c01_enc_ah_p2, 2);
enc_fds!(c01_enc_ah_p0_le, 0, false);
enc_fds!(c01_enc_ah_p0_be, 0, true);

// ------------------------------------------------------------------ C01: one struct shape, per offset
macro_rules! enc_struct_yu {
    ($h:ident, $pos:expr) => {
        #[kani::proof]
        #[kani::unwind(9)]
        #[kani::stub(alloc::fmt::format, no_format)]
        #[kani::stub(<std::os::fd::OwnedFd as core::ops::Drop>::drop, no_close)]
        fn $h() {
            let v: (u8, u32) = kani::any();
            let be: bool = kani::any();
            let mut buf = [0u8; 32];
            let mut cur = Cursor::new(&mut buf[..]);
            let r = unsafe {
                to_writer_for_signature(
                    &mut cur,
                    ctx($pos, be),
                    Signature::static_structure(&[&Signature::U8, &Signature::U32]),
                    &v,
                )
            };
            let mut m = Out::new($pos, be);
            m.struct_begin();
            m.u8(v.0);
            m.u32(v.1);
            match &r {
                Ok(w) => {
                    kani::cover!(be, "big endian");
                    kani::cover!(!be, "little endian");
                    assert!(w.size() == m.len, "struct: encoded length differs from the D-Bus marshalling rules");
                    assert!(same32(&buf, &model32(&m)), "struct: encoded bytes differ from the D-Bus marshalling rules");
                }
                Err(_) => assert!(false, "encoding a well-typed struct failed"),
            }
            core::mem::forget(r);
        }
    };
}
enc_struct_yu!(c01_enc_yu_p0, 0);
enc_struct_yu!(c01_enc_yu_p5, 5);

/// array of one struct: `a(yu)` (8-byte element alignment), per offset
macro_rules! enc_array_of_struct {
    ($h:ident, $pos:expr) => {
        enc_array_of_struct!($h, $pos, kani::any());
    };
    ($h:ident, $pos:expr, $be:expr) => {
        #[kani::proof]
        #[kani::unwind(9)]
        #[kani::stub(alloc::fmt::format, no_format)]
        #[kani::stub(<std::os::fd::OwnedFd as core::ops::Drop>::drop, no_close)]
        fn $h() {
            static YU: Signature = Signature::static_structure(&[&Signature::U8, &Signature::U32]);
            let v: [(u8, u32); 1] = kani::any();
            let be: bool = $be;
            let mut buf = [0u8; 32];
            let mut cur = Cursor::new(&mut buf[..]);
            let r = unsafe { to_writer_for_signature(&mut cur, ctx($pos, be), Signature::static_array(&YU), &v[..]) };
            let mut m = Out::new($pos, be);
            let mark = m.array_begin(8);
            m.struct_begin();
            m.u8(v[0].0);
            m.u32(v[0].1);
            m.array_end(mark);
            match &r {
                Ok(w) => {
                    kani::cover!(be, "big endian");
                    kani::cover!(!be, "little endian");
                    assert!(w.size() == m.len, "array of structs: encoded length differs from the D-Bus marshalling rules");
                    assert!(same32(&buf, &model32(&m)), "array of structs: encoded bytes differ from the D-Bus marshalling rules");
                }
                Err(_) => assert!(false, "encoding a well-typed array of structs failed"),
            }
            core::mem::forget(r);
        }
    };
}
enc_array_of_struct!(c01_enc_ayu_p0, 0);
enc_array_of_struct!(c01_enc_ayu_p4, 4);
enc_array_of_struct!(c01_enc_ayu_p4_le, 4, false);

/// a variant holding a u32 (dynamic `Value`), per offset: signature `u` as a SIGNATURE, then the aligned value
macro_rules! enc_variant_u {
    ($h:ident, $pos:expr) => {
        enc_variant_u!($h, $pos, kani::any());
    };
    ($h:ident, $pos:expr, $be:expr) => {
        #[kani::proof]
        #[kani::unwind(9)]
        #[kani::stub(alloc::fmt::format, no_format)]
        #[kani::stub(<std::os::fd::OwnedFd as core::ops::Drop>::drop, no_close)]
        fn $h() {
            let x: u32 = kani::any();
            let v = zvariant::Value::U32(x);
            let be: bool = $be;
            let mut buf = [0u8; 32];
            let mut cur = Cursor::new(&mut buf[..]);
            let r = unsafe { to_writer_for_signature(&mut cur, ctx($pos, be), Signature::Variant, &v) };
            let mut m = Out::new($pos, be);
            m.signature(b"u");
            m.u32(x);
            match &r {
                Ok(w) => {
                    kani::cover!(be, "big endian");
                    kani::cover!(!be, "little endian");
                    assert!(w.size() == m.len, "variant: encoded length differs from the D-Bus marshalling rules");
                    assert!(same32(&buf, &model32(&m)), "variant: encoded bytes differ from the D-Bus marshalling rules");
                }
                Err(_) => assert!(false, "encoding a variant failed"),
            }
            core::mem::forget(r);
            core::mem::forget(v);
        }
    };
}
enc_variant_u!(c01_enc_v_u_p0, 0);
enc_variant_u!(c01_enc_v_u_p3, 3);
enc_variant_u!(c01_enc_v_u_p3_be, 3, true);

// ------------------------------------------------------------------ C03: one struct shape from arbitrary bytes, per offset
macro_rules! dec_struct_yu {
    ($h:ident, $pos:expr, $N:expr, $be:expr) => {
        #[kani::proof]
        #[kani::unwind(10)]
        #[kani::stub(alloc::fmt::format, no_format)]
        #[kani::stub(<std::os::fd::OwnedFd as core::ops::Drop>::drop, no_close)]
        fn $h() {
            let buf: [u8; $N] = kani::any();
            let be: bool = $be;
            let data = Data::new(&buf[..], ctx($pos, be));
            let r = data.deserialize_for_signature::<_, (u8, u32)>(Signature::static_structure(&[&Signature::U8, &Signature::U32]));
            // reference: pad to 8 with zeros, y, pad to 4 with zeros, u
            const P0: usize = (8 - $pos % 8) % 8;
            let mut ok = $N >= P0 + 8;
            let mut i = 0;
            while i < P0 && i < $N {
                ok &= buf[i] == 0;
                i += 1;
            }
            if $N >= P0 + 8 {
                ok &= buf[P0 + 1] == 0 && buf[P0 + 2] == 0 && buf[P0 + 3] == 0;
            }
            match &r {
                Ok(((y, u), used)) => {
                    kani::cover!(true, "valid encoding accepted");
                    assert!(ok, "struct decoder accepted an invalid encoding (non-zero padding or truncated)");
                    assert!(*used == P0 + 8, "struct: consumed byte count differs");
                    assert!(*y == buf[P0]);
                    let w = [buf[P0 + 4], buf[P0 + 5], buf[P0 + 6], buf[P0 + 7]];
                    let want = if be { u32::from_be_bytes(w) } else { u32::from_le_bytes(w) };
                    assert!(*u == want, "struct: field value differs");
                }
                Err(_) => {
                    kani::cover!(true, "invalid encoding rejected");
                    assert!(!ok, "struct decoder rejected a valid encoding");
                }
            }
            core::mem::forget(r);
            core::mem::forget(data);
        }
    };
}
dec_struct_yu!(c03_dec_yu_p0_le, 0, 8, false);
dec_struct_yu!(c03_dec_yu_p0_be, 0, 8, true);
dec_struct_yu!(c03_dec_yu_p5_le, 5, 11, false);
dec_struct_yu!(c03_dec_yu_p5_be, 5, 11, true);

// ------------------------------------------------------------------ C03: array of one-byte structs `a(y)` from arbitrary bytes (padding *between* elements)
#[derive(Clone, Copy, Default, serde::Deserialize)]
pub struct OneByte(pub u8);

macro_rules! dec_array_of_struct {
    ($h:ident, $be:expr) => {
        #[kani::proof]
        #[kani::unwind(10)]
        #[kani::stub(alloc::fmt::format, no_format)]
        #[kani::stub(<std::os::fd::OwnedFd as core::ops::Drop>::drop, no_close)]
        fn $h() {
            static Y1: Signature = Signature::static_structure(&[&Signature::U8]);
            let buf: [u8; 17] = kani::any();
            let be: bool = $be;
            let data = Data::new(&buf[..], ctx(0, be));
            let r = data.deserialize_for_signature::<_, Arr2<(u8,)>>(Signature::static_array(&Y1));
            // reference for offset 0, 17 bytes: u32 L at 0, padding 4..8 zero (even when empty), elements are 1 byte
            // at 8-aligned positions: valid L are 0 (no element), 1 (one element at 8), 9 (elements at 8 and 16 with
            // zero padding 9..16).
            let w = [buf[0], buf[1], buf[2], buf[3]];
            let l = if be { u32::from_be_bytes(w) } else { u32::from_le_bytes(w) };
            let pad_ok = buf[4] == 0 && buf[5] == 0 && buf[6] == 0 && buf[7] == 0;
            let gap_ok = buf[9] == 0 && buf[10] == 0 && buf[11] == 0 && buf[12] == 0 && buf[13] == 0 && buf[14] == 0 && buf[15] == 0;
            let want: Option<(usize, usize)> = if !pad_ok {
                None
            } else if l == 0 {
                Some((0, 8))
            } else if l == 1 {
                Some((1, 9))
            } else if l == 9 && gap_ok {
                Some((2, 17))
            } else {
                None
            };
            match (&r, want) {
                (Ok((a, used)), Some((count, mused))) => {
                    kani::cover!(count == 2, "two elements accepted");
                    assert!(a.n == count && *used == mused, "array of structs: count / consumed differ");
                    assert!(count < 1 || (a.v[0].0 == buf[8]));
                    assert!(count < 2 || (a.v[1].0 == buf[16]));
                }
                (Err(_), None) => {
                    kani::cover!(l == 9, "two-element array with dirty padding rejected");
                }
                (Ok(_), None) => assert!(false, "array-of-structs decoder accepted an invalid encoding (non-zero padding / bad length)"),
                (Err(_), Some(_)) => assert!(false, "array-of-structs decoder rejected a valid encoding"),
            }
            core::mem::forget(r);
            core::mem::forget(data);
        }
    };
}
dec_array_of_struct!(c03_dec_a_y1_le, false);
dec_array_of_struct!(c03_dec_a_y1_be, true);
