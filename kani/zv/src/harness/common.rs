use crate::refmodel::dbus::Out;
use zvariant::serialized::Context;
use zvariant::Endian;

/// Environment stub: error-message formatting (messages are not part of any property).
pub fn no_format(_: core::fmt::Arguments<'_>) -> String {
    String::new()
}
/// Environment stub: closing a file descriptor (close(2) + std's debug fcntl probe that formats to stderr).
pub fn no_close(_: &mut std::os::fd::OwnedFd) {}

pub fn ctx(pos: usize, be: bool) -> Context {
    Context::new_dbus(if be { Endian::Big } else { Endian::Little }, pos)
}

/// Loop-free comparison of two 32-byte buffers.
pub fn same32(a: &[u8; 32], b: &[u8; 32]) -> bool {
    let f = |x: &[u8; 32], o: usize| {
        u64::from_le_bytes([x[o], x[o + 1], x[o + 2], x[o + 3], x[o + 4], x[o + 5], x[o + 6], x[o + 7]])
    };
    f(a, 0) == f(b, 0) && f(a, 8) == f(b, 8) && f(a, 16) == f(b, 16) && f(a, 24) == f(b, 24)
}
pub fn model32(m: &Out) -> [u8; 32] {
    let b = &m.buf;
    [
        b[0], b[1], b[2], b[3], b[4], b[5], b[6], b[7], b[8], b[9], b[10], b[11], b[12], b[13], b[14], b[15], b[16], b[17],
        b[18], b[19], b[20], b[21], b[22], b[23], b[24], b[25], b[26], b[27], b[28], b[29], b[30], b[31],
    ]
}

/// symbolic (offset-in-message, big-endian?) pair: offsets 0..15, both byte orders
pub fn sym_ctx() -> (usize, bool) {
    let pos: usize = kani::any();
    kani::assume(pos < 16);
    (pos, kani::any())
}

/// symbolic ASCII text (1..=0x7f, no NUL) of length 0..=3 in a 3-byte buffer
pub fn sym_text3() -> ([u8; 3], usize) {
    let b: [u8; 3] = kani::any();
    let n: usize = kani::any();
    kani::assume(n <= 3);
    kani::assume(b[0] != 0 && b[0] < 0x80 && b[1] != 0 && b[1] < 0x80 && b[2] != 0 && b[2] < 0x80);
    (b, n)
}

// ---- std stubs: word-at-a-time library routines replaced by their byte-loop specification. Trusted: that std's
// `from_utf8` accepts exactly well-formed UTF-8 (the naive validator below is checked natively against std on all
// 1- and 2-byte strings and a sample of longer ones) and that `memchr` returns the first index of the byte.
const UTF8_ERR: core::str::Utf8Error = match core::str::from_utf8(&[0xff]) {
    Err(e) => e,
    Ok(_) => panic!(),
};
pub fn naive_from_utf8(v: &[u8]) -> Result<&str, core::str::Utf8Error> {
    if crate::refmodel::dbus::utf8_valid(v) {
        Ok(unsafe { core::str::from_utf8_unchecked(v) })
    } else {
        Err(UTF8_ERR)
    }
}
pub fn naive_memchr(x: u8, text: &[u8]) -> Option<usize> {
    let mut i = 0;
    while i < text.len() {
        if text[i] == x {
            return Some(i);
        }
        i += 1;
    }
    None
}
