//! C04: decoding arbitrary bytes never panics (Kani's own checks are the obligation: panics, unwrap/expect,
//! unreachable!, arithmetic overflow, out-of-bounds indexing/slicing, failed assert!), D-Bus and GVariant.
use super::common::*;
use zvariant::serialized::{Context, Data};
use zvariant::{Endian, Signature, Value};

fn cx(gv: bool, pos: usize, be: bool) -> Context {
    let e = if be { Endian::Big } else { Endian::Little };
    #[cfg(feature = "gvariant")]
    if gv {
        return Context::new_gvariant(e, pos);
    }
    let _ = gv;
    Context::new_dbus(e, pos)
}

macro_rules! total_typed {
    ($h:ident, $gv:expr, $ty:ty, $sig:expr, $N:expr, $U:expr) => {
        #[kani::proof]
        #[kani::unwind($U)]
        #[kani::stub(alloc::fmt::format, no_format)]
        #[kani::stub(<std::os::fd::OwnedFd as core::ops::Drop>::drop, no_close)]
        #[kani::stub(core::str::from_utf8, naive_from_utf8)]
        #[kani::stub(core::slice::memchr::memchr, naive_memchr)]
        fn $h() {
            let buf: [u8; $N] = kani::any();
            let len: usize = kani::any();
            kani::assume(len <= $N);
            let pos: usize = kani::any();
            kani::assume(pos < 8);
            let be: bool = kani::any();
            let data = Data::new(&buf[..len], cx($gv, pos, be));
            let r = data.deserialize_for_signature::<_, $ty>($sig);
            match &r {
                Ok((_, used)) => {
                    kani::cover!(true, "some input decodes");
                    // never reports more bytes consumed than it was given
                    assert!(*used <= len, "decoder reports consuming more bytes than the input holds");
                }
                Err(_) => {
                    kani::cover!(true, "some input is rejected");
                }
            }
            core::mem::forget(r);
            core::mem::forget(data);
        }
    };
}

#[cfg(feature = "gvariant")]
mod gv {
    use super::*;
    total_typed!(c04_gv_dec_y, true, u8, Signature::U8, 4, 9);
    total_typed!(c04_gv_dec_b, true, bool, Signature::Bool, 4, 9);
    total_typed!(c04_gv_dec_q, true, u16, Signature::U16, 8, 9);
    total_typed!(c04_gv_dec_u, true, u32, Signature::U32, 8, 9);
    total_typed!(c04_gv_dec_t, true, u64, Signature::U64, 12, 9);
    total_typed!(c04_gv_dec_d, true, f64, Signature::F64, 12, 9);
    total_typed!(c04_gv_dec_s, true, &str, Signature::Str, 5, 9);
}

/// Dynamic target: `Value` for a leaf signature (ValueSeed / deserialize_any path).
macro_rules! total_dyn {
    ($h:ident, $gv:expr, $sig:expr, $N:expr, $U:expr) => {
        #[kani::proof]
        #[kani::unwind($U)]
        #[kani::stub(alloc::fmt::format, no_format)]
        #[kani::stub(<std::os::fd::OwnedFd as core::ops::Drop>::drop, no_close)]
        #[kani::stub(core::str::from_utf8, naive_from_utf8)]
        #[kani::stub(core::slice::memchr::memchr, naive_memchr)]
        fn $h() {
            let buf: [u8; $N] = kani::any();
            let len: usize = kani::any();
            kani::assume(len <= $N);
            let pos: usize = kani::any();
            kani::assume(pos < 8);
            let be: bool = kani::any();
            let data = Data::new(&buf[..len], cx($gv, pos, be));
            let r = data.deserialize_for_dynamic_signature::<_, Value<'_>>($sig);
            match &r {
                Ok((_, used)) => {
                    kani::cover!(true, "some input decodes");
                    assert!(*used <= len, "decoder reports consuming more bytes than the input holds");
                }
                Err(_) => {
                    kani::cover!(true, "some input is rejected");
                }
            }
            core::mem::forget(r);
            core::mem::forget(data);
        }
    };
}
total_dyn!(c04_dbus_dyn_u, false, Signature::U32, 8, 9);
total_dyn!(c04_dbus_dyn_b, false, Signature::Bool, 8, 9);
total_dyn!(c04_dbus_dyn_s, false, Signature::Str, 8, 10);
