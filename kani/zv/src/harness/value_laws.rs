//! C08: equality / ordering / hashing / conversion laws of dynamic values (leaf shapes and one-level Value(Value)).
use super::common::*;
use std::cmp::Ordering;
use std::hash::{Hash, Hasher};
use zvariant::Value;

/// Deterministic FNV-1a hasher: hashing must be a function of the bytes fed, cheap for the solver.
struct Fnv(u64);
impl Hasher for Fnv {
    fn finish(&self) -> u64 {
        self.0
    }
    fn write(&mut self, bytes: &[u8]) {
        let mut i = 0;
        while i < bytes.len() {
            self.0 ^= bytes[i] as u64;
            self.0 = self.0.wrapping_mul(0x100000001b3);
            i += 1;
        }
    }
}
fn h(v: &Value<'_>) -> u64 {
    let mut s = Fnv(0xcbf29ce484222325);
    v.hash(&mut s);
    s.finish()
}

/// symbolic numeric leaf; `allow_nan == false` excludes the listed finding's class (a NaN payload)
fn sym_leaf(allow_nan: bool) -> Value<'static> {
    let k: u8 = kani::any();
    kani::assume(k < 9);
    match k {
        0 => Value::U8(kani::any()),
        1 => Value::Bool(kani::any()),
        2 => Value::I16(kani::any()),
        3 => Value::U16(kani::any()),
        4 => Value::I32(kani::any()),
        5 => Value::U32(kani::any()),
        6 => Value::I64(kani::any()),
        7 => Value::U64(kani::any()),
        _ => {
            let f: f64 = kani::any();
            if !allow_nan {
                kani::assume(!f.is_nan());
            }
            Value::F64(f)
        }
    }
}

fn has_nan(v: &Value<'_>) -> bool {
    matches!(v, Value::F64(f) if f.is_nan())
}

/// The listed finding D7 is confined to `==` on NaN payloads (derived PartialEq): the equality-related assertions
/// are restricted to NaN-free operands; the ordering laws are asserted for *all* values, NaN included.
fn laws(a: &Value<'_>, b: &Value<'_>, c: &Value<'_>) {
    let nan_free = !has_nan(a) && !has_nan(b) && !has_nan(c);
    if nan_free {
        // equality is an equivalence
        assert!(a == a, "equality is not reflexive");
        assert!((a == b) == (b == a), "equality is not symmetric");
        if a == b && b == c {
            assert!(a == c, "equality is not transitive");
        }
    }
    // total order (for every value, NaN included)
    let ab = a.cmp(b);
    let ba = b.cmp(a);
    assert!(a.cmp(a) == Ordering::Equal, "ordering is not reflexive");
    assert!(ab == ba.reverse(), "ordering is not antisymmetric");
    if ab != Ordering::Greater && b.cmp(c) != Ordering::Greater {
        assert!(a.cmp(c) != Ordering::Greater, "ordering is not transitive");
    }
    if nan_free {
        assert!((ab == Ordering::Equal) == (a == b), "ordering is not consistent with equality");
        // equal values hash equally (+0.0 / -0.0 included)
        if a == b {
            assert!(h(a) == h(b), "equal values hash differently");
        }
    }
    kani::cover!(ab != Ordering::Equal, "ordered pair");
}

/// numeric leaf restricted to three representative variants (small, wide integer, float) for the triple laws
fn sym_leaf3() -> Value<'static> {
    let k: u8 = kani::any();
    kani::assume(k < 3);
    match k {
        0 => Value::U8(kani::any()),
        1 => Value::I64(kani::any()),
        _ => Value::F64(kani::any()),
    }
}

/// laws over three values of one fixed variant (all payloads); one harness per variant
macro_rules! same_variant_laws {
    ($h:ident, $var:ident) => {
        #[kani::proof]
        #[kani::unwind(10)]
        #[kani::stub(alloc::fmt::format, no_format)]
        fn $h() {
            let a = Value::$var(kani::any());
            let b = Value::$var(kani::any());
            let c = Value::$var(kani::any());
            kani::cover!(a == b, "equal pair");
            laws(&a, &b, &c);
            core::mem::forget((a, b, c));
        }
    };
}
same_variant_laws!(c08_laws_y, U8);
same_variant_laws!(c08_laws_b, Bool);
same_variant_laws!(c08_laws_n, I16);
same_variant_laws!(c08_laws_q, U16);
same_variant_laws!(c08_laws_i, I32);
same_variant_laws!(c08_laws_u, U32);
same_variant_laws!(c08_laws_x, I64);
same_variant_laws!(c08_laws_t, U64);

/// laws across two fixed, different variants
macro_rules! cross_variant_laws {
    ($h:ident, $v1:ident, $v2:ident) => {
        #[kani::proof]
        #[kani::unwind(10)]
        #[kani::stub(alloc::fmt::format, no_format)]
        fn $h() {
            let a = Value::$v1(kani::any());
            let b = Value::$v2(kani::any());
            let c = Value::$v1(kani::any());
            laws(&a, &b, &c);
            laws(&b, &a, &c);
            core::mem::forget((a, b, c));
        }
    };
}
cross_variant_laws!(c08_laws_y_x, U8, I64);
cross_variant_laws!(c08_laws_d_t, F64, U64);
cross_variant_laws!(c08_laws_u_d, U32, F64);

/// triple laws (transitivity) over three floats, NaN and signed zeros included
#[kani::proof]
#[kani::unwind(10)]
#[kani::stub(alloc::fmt::format, no_format)]
fn c08_f64_triple_laws() {
    let a = Value::F64(kani::any());
    let b = Value::F64(kani::any());
    let c = Value::F64(kani::any());
    kani::cover!(has_nan(&a) && !has_nan(&b), "NaN vs number");
    kani::cover!(a == b, "equal pair");
    laws(&a, &b, &c);
    core::mem::forget((a, b, c));
}

/// Witness for the listed finding D7: with NaN payloads allowed the laws fail.
#[kani::proof]
#[kani::unwind(10)]
#[kani::stub(alloc::fmt::format, no_format)]
fn c08_leaf_laws_nan_witness() {
    let f: f64 = kani::any();
    kani::assume(f.is_nan());
    let a = Value::F64(f);
    assert!(a == a, "equality is not reflexive");
    assert!((a.cmp(&a) == Ordering::Equal) == (a == a), "ordering is not consistent with equality");
    core::mem::forget(a);
}

/// try_clone preserves equality and the reported signature (one harness per variant)
macro_rules! clone_laws {
    ($h:ident, $var:ident, $sig:expr) => {
        #[kani::proof]
        #[kani::unwind(10)]
        #[kani::stub(alloc::fmt::format, no_format)]
        fn $h() {
            let a = Value::$var(kani::any());
            kani::assume(!has_nan(&a));
            let r = a.try_clone();
            match &r {
                Ok(b) => {
                    kani::cover!(true, "cloned");
                    assert!(a == *b, "try_clone changed the value");
                    assert!(b.value_signature() == &$sig, "cloned value reports a different signature");
                }
                Err(_) => assert!(false, "try_clone of a leaf failed"),
            }
            assert!(a.value_signature() == &$sig, "value_signature is not the signature of the variant");
            core::mem::forget(r);
            core::mem::forget(a);
        }
    };
}
clone_laws!(c08_clone_y, U8, zvariant::Signature::U8);
clone_laws!(c08_clone_x, I64, zvariant::Signature::I64);
clone_laws!(c08_clone_d, F64, zvariant::Signature::F64);

/// conversion back to the Rust type the value was built from
#[kani::proof]
#[kani::unwind(10)]
#[kani::stub(alloc::fmt::format, no_format)]
fn c08_conversions() {
    let x: u32 = kani::any();
    let v = Value::from(x);
    let back = u32::try_from(&v);
    assert!(matches!(back, Ok(y) if y == x), "u32 -> Value -> u32 changed the value");
    core::mem::forget(back);
    let y: i64 = kani::any();
    let v2 = Value::from(y);
    let back2 = i64::try_from(&v2);
    assert!(matches!(back2, Ok(z) if z == y), "i64 -> Value -> i64 changed the value");
    core::mem::forget(back2);
    let d: f64 = kani::any();
    let v3 = Value::from(d);
    let back3 = f64::try_from(&v3);
    assert!(matches!(back3, Ok(z) if z.to_bits() == d.to_bits()), "f64 -> Value -> f64 changed the value");
    core::mem::forget(back3);
    // a wrong target type is refused
    let wrong = u8::try_from(&v);
    assert!(wrong.is_err(), "u32 value converted into u8");
    core::mem::forget(wrong);
    kani::cover!(x == u32::MAX, "boundary value");
    core::mem::forget((v, v2, v3));
}

// ---------------------------------------------------------------- strings and one level of nesting

fn sym_str_value(which: u8) -> Value<'static> {
    let b: [u8; 2] = kani::any();
    kani::assume(b[0] != 0 && b[0] < 0x80 && b[1] != 0 && b[1] < 0x80);
    let n: usize = kani::any();
    kani::assume(n <= 2);
    let b: &'static [u8; 2] = Box::leak(Box::new(b));
    let s: &'static str = unsafe { core::str::from_utf8_unchecked(&b[..n]) };
    if which == 0 {
        Value::Str(zvariant::Str::from_static(s))
    } else {
        Value::ObjectPath(zvariant::ObjectPath::from_static_str_unchecked(s))
    }
}

/// three string values (0..=2 symbolic ASCII bytes each)
#[kani::proof]
#[kani::unwind(10)]
#[kani::stub(alloc::fmt::format, no_format)]
fn c08_laws_s() {
    let a = sym_str_value(0);
    let b = sym_str_value(0);
    let c = sym_str_value(0);
    kani::cover!(a == b, "equal pair");
    laws(&a, &b, &c);
    core::mem::forget((a, b, c));
}

/// string vs object path with the same text are different values, consistently
#[kani::proof]
#[kani::unwind(10)]
#[kani::stub(alloc::fmt::format, no_format)]
fn c08_laws_s_o() {
    let a = sym_str_value(0);
    let b = sym_str_value(1);
    let c = sym_str_value(0);
    assert!(a != b, "a string equals an object path");
    laws(&a, &b, &c);
    laws(&b, &a, &c);
    core::mem::forget((a, b, c));
}

/// one level of nesting: Value(Value::U32)
#[kani::proof]
#[kani::unwind(10)]
#[kani::stub(alloc::fmt::format, no_format)]
fn c08_laws_nested_u() {
    let a = Value::Value(Box::new(Value::U32(kani::any())));
    let b = Value::Value(Box::new(Value::U32(kani::any())));
    let c = Value::Value(Box::new(Value::U32(kani::any())));
    kani::cover!(a == b, "equal pair");
    laws(&a, &b, &c);
    assert!(a.value_signature() == &zvariant::Signature::Variant, "nested value does not report the variant signature");
    core::mem::forget((a, b, c));
}

// ---------------------------------------------------------------- arrays built through the conversion API

/// Every element of an array is a value of the array's element signature, whichever conversion built the array;
/// arrays built from a slice and from a Vec of the same elements are equal (elements: u8, or one-level variants).
#[kani::proof]
#[kani::unwind(6)]
#[kani::stub(alloc::fmt::format, no_format)]
fn c08_array_conversions_y() {
    let x: [u8; 2] = kani::any();
    let from_slice = zvariant::Array::from(&x[..]);
    let from_vec = zvariant::Array::from(vec![x[0], x[1]]);
    assert!(from_slice.len() == 2 && from_vec.len() == 2);
    assert!(from_slice == from_vec, "array from a slice differs from the array from a Vec of the same elements");
    let es = from_slice.element_signature();
    assert!(*es == zvariant::Signature::U8);
    let inner = from_slice.inner();
    assert!(inner[0].value_signature() == es && inner[1].value_signature() == es, "element does not have the array's element signature");
    kani::cover!(x[0] != x[1], "distinct elements");
    core::mem::forget((from_slice, from_vec));
}

/// One-element cell of the slice conversion, written without `==` on signatures or arrays (their recursive
/// `PartialEq` is what made `c08_array_conversions_*` time out): an array built from `&[Value]` has element
/// signature `v` and every element is a `Value::Value` wrapping the original; built from `&[u8]` it has element
/// signature `y` and bare `Value::U8` elements.
#[kani::proof]
#[kani::unwind(4)]
#[kani::stub(alloc::fmt::format, no_format)]
fn c08_array_from_slice_cell() {
    let x: u8 = kani::any();
    let vals = [Value::U8(x)];
    let av = zvariant::Array::from(&vals[..]);
    assert!(av.len() == 1);
    assert!(matches!(av.element_signature(), zvariant::Signature::Variant), "array of values does not have element signature v");
    match &av.inner()[0] {
        Value::Value(b) => assert!(matches!(**b, Value::U8(y) if y == x), "wrapped element differs from the original"),
        _ => panic!("element of an array with element signature v is not a variant"),
    }
    let raw = [x];
    let ay = zvariant::Array::from(&raw[..]);
    assert!(ay.len() == 1);
    assert!(matches!(ay.element_signature(), zvariant::Signature::U8), "array of bytes does not have element signature y");
    assert!(matches!(ay.inner()[0], Value::U8(y) if y == x), "byte element is not a bare U8 of the same value");
    kani::cover!(x == 0x7f, "reached the end with a chosen payload");
    core::mem::forget((av, ay, vals));
}

#[kani::proof]
#[kani::unwind(6)]
#[kani::stub(alloc::fmt::format, no_format)]
fn c08_array_conversions_v() {
    let x: [u8; 2] = kani::any();
    let vals = [Value::U8(x[0]), Value::U8(x[1])];
    let from_slice = zvariant::Array::from(&vals[..]);
    let from_vec = zvariant::Array::from(vec![Value::U8(x[0]), Value::U8(x[1])]);
    assert!(from_slice.len() == 2 && from_vec.len() == 2);
    assert!(from_slice == from_vec, "array from a slice differs from the array from a Vec of the same elements");
    let es = from_slice.element_signature();
    assert!(*es == zvariant::Signature::Variant, "array of variants does not report element signature 'v'");
    let inner = from_slice.inner();
    assert!(inner[0].value_signature() == es && inner[1].value_signature() == es, "element does not have the array's element signature");
    kani::cover!(x[0] != x[1], "distinct elements");
    core::mem::forget((from_slice, from_vec, vals));
}
