//! C05 (b): GVariant encoding of leaf and maybe types through the public API vs. the GVariant specification:
//! fixed-size types are stored in their natural size at natural alignment (zero padding), strings are the bytes
//! followed by a NUL (no length prefix), a maybe of a fixed-size type is the value itself or empty, a maybe of a
//! non-fixed-size type is the value followed by one zero byte, or empty.
use super::common::*;
use crate::refmodel::dbus::Out;
use std::io::Cursor;
use zvariant::serialized::Context;
use zvariant::{to_writer_for_signature, Endian, Signature};

fn gctx(pos: usize, be: bool) -> Context {
    Context::new_gvariant(if be { Endian::Big } else { Endian::Little }, pos)
}

macro_rules! gv_enc {
    ($h:ident, $ty:ty, $sig:expr, $mk:expr, |$m:ident, $v:ident| $model:expr) => {
        gv_enc!(@at $h, sym_ctx(), $ty, $sig, $mk, |$m, $v| $model);
    };
    (@at $h:ident, $ctx:expr, $ty:ty, $sig:expr, $mk:expr, |$m:ident, $v:ident| $model:expr) => {
        #[kani::proof]
        #[kani::unwind(9)]
        #[kani::stub(alloc::fmt::format, no_format)]
        #[kani::stub(<std::os::fd::OwnedFd as core::ops::Drop>::drop, no_close)]
        fn $h() {
            let raw: $ty = kani::any();
            let $v = raw;
            let val = $mk(raw);
            let (pos, be): (usize, bool) = $ctx;
            let mut buf = [0u8; 32];
            let mut cur = Cursor::new(&mut buf[..]);
            let r = unsafe { to_writer_for_signature(&mut cur, gctx(pos, be), $sig, &val) };
            let mut $m = Out::new(pos, be);
            $model;
            match &r {
                Ok(w) => {
                    kani::cover!(true, "encoded");
                    assert!(w.size() == $m.len, "GVariant: encoded length differs from the specification");
                    assert!(same32(&buf, &model32(&$m)), "GVariant: encoded bytes differ from the specification");
                }
                Err(_) => assert!(false, "encoding a well-typed value failed"),
            }
            core::mem::forget(r);
        }
    };
}

fn id<T>(x: T) -> T {
    x
}
gv_enc!(c05_enc_y, u8, Signature::U8, id, |m, v| m.u8(v));
gv_enc!(c05_enc_b, bool, Signature::Bool, id, |m, v| m.u8(v as u8));
gv_enc!(c05_enc_q, u16, Signature::U16, id, |m, v| m.u16(v));
gv_enc!(c05_enc_u, u32, Signature::U32, id, |m, v| m.u32(v));
gv_enc!(c05_enc_t, u64, Signature::U64, id, |m, v| m.u64(v));
gv_enc!(c05_enc_d, f64, Signature::F64, id, |m, v| m.u64(v.to_bits()));

fn opt_u32(x: (bool, u32)) -> Option<u32> {
    if x.0 {
        Some(x.1)
    } else {
        None
    }
}
static MU: Signature = Signature::static_maybe(&Signature::U32);
gv_enc!(c05_enc_mu, (bool, u32), &MU, opt_u32, |m, v| {
    // a maybe is aligned like its child even when it is Nothing
    m.align(4);
    if v.0 {
        m.u32(v.1)
    }
});
fn opt_u64(x: (bool, u64)) -> Option<u64> {
    if x.0 {
        Some(x.1)
    } else {
        None
    }
}
static MT: Signature = Signature::static_maybe(&Signature::U64);
gv_enc!(c05_enc_mt, (bool, u64), &MT, opt_u64, |m, v| {
    m.align(8);
    if v.0 {
        m.u64(v.1)
    }
});

macro_rules! gv_text {
    ($h:ident, $sig:expr, $maybe:expr) => {
        #[kani::proof]
        #[kani::unwind(9)]
        #[kani::stub(alloc::fmt::format, no_format)]
        #[kani::stub(<std::os::fd::OwnedFd as core::ops::Drop>::drop, no_close)]
        fn $h() {
            let (tb, tn) = sym_text3();
            let tb: &'static [u8; 3] = Box::leak(Box::new(tb));
            let s: &'static str = unsafe { core::str::from_utf8_unchecked(&tb[..tn]) };
            let present: bool = kani::any();
            let (pos, be) = sym_ctx();
            let mut buf = [0u8; 32];
            let mut cur = Cursor::new(&mut buf[..]);
            let r = if $maybe {
                let val: Option<&str> = if present { Some(s) } else { None };
                unsafe { to_writer_for_signature(&mut cur, gctx(pos, be), $sig, &val) }
            } else {
                unsafe { to_writer_for_signature(&mut cur, gctx(pos, be), $sig, s) }
            };
            let mut m = Out::new(pos, be);
            if !$maybe || present {
                let mut i = 0;
                while i < tn {
                    m.push(tb[i]);
                    i += 1;
                }
                m.push(0);
                if $maybe {
                    m.push(0);
                }
            }
            match &r {
                Ok(w) => {
                    kani::cover!(tn == 3, "3-byte text");
                    kani::cover!(tn == 0, "empty text");
                    assert!(w.size() == m.len, "GVariant: encoded length differs from the specification");
                    assert!(same32(&buf, &model32(&m)), "GVariant: encoded bytes differ from the specification");
                }
                Err(_) => assert!(false, "encoding a well-typed value failed"),
            }
            core::mem::forget(r);
        }
    };
}
static MS: Signature = Signature::static_maybe(&Signature::Str);
gv_text!(c05_enc_s, Signature::Str, false);
gv_text!(c05_enc_ms, &MS, true);

// per-offset cells for the maybe types (the symbolic-offset versions above do not fit)
gv_enc!(@at c05_enc_mu_p0, (0, kani::any()), (bool, u32), &MU, opt_u32, |m, v| {
    m.align(4);
    if v.0 {
        m.u32(v.1)
    }
});
gv_enc!(@at c05_enc_mu_p1, (1, kani::any()), (bool, u32), &MU, opt_u32, |m, v| {
    m.align(4);
    if v.0 {
        m.u32(v.1)
    }
});
gv_enc!(@at c05_enc_mt_p4, (4, kani::any()), (bool, u64), &MT, opt_u64, |m, v| {
    m.align(8);
    if v.0 {
        m.u64(v.1)
    }
});

// concrete byte order cells
gv_enc!(@at c05_enc_mu_p1_le, (1, false), (bool, u32), &MU, opt_u32, |m, v| {
    m.align(4);
    if v.0 {
        m.u32(v.1)
    }
});
gv_enc!(@at c05_enc_mu_p1_be, (1, true), (bool, u32), &MU, opt_u32, |m, v| {
    m.align(4);
    if v.0 {
        m.u32(v.1)
    }
});
