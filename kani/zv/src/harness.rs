pub mod common;
mod leaf;
mod nopanic;
mod roundtrip;
mod arr;
mod value_laws;
#[cfg(feature = "gvariant")]
mod gv_leaf;
