pub mod probes;
mod probes2;
mod probes3;
