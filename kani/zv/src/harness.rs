pub mod common;
pub mod probes;
mod probes2;
mod probes3;
mod leaf;
