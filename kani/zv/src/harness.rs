pub mod common;
mod leaf;
mod nopanic;
mod roundtrip;
mod arr;
