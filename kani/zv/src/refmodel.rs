pub mod dbus;
