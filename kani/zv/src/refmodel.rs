pub mod dbus;
pub mod names;
