#![allow(dead_code, unused_imports)]
pub mod refmodel;
#[cfg(kani)]
mod harness;
