use super::common::*;
use zvariant::serialized::Data;
use zvariant::Signature;

fn body(buf: &[u8; 8], len: usize, be: bool) {
    let data = Data::new(&buf[..len], ctx(0, be));
    let r = data.deserialize_for_signature::<_, &str>(Signature::Str);
    match &r {
        Ok((v, used)) => {
            kani::cover!(true, "accepted");
            assert!(*used <= len, "consumed more than the input holds");
            assert!(buf[*used - 1] == 0, "terminator is not NUL");
            assert!(v.len() + 5 == *used);
        }
        Err(_) => {
            kani::cover!(true, "rejected");
        }
    }
    core::mem::forget(r);
    core::mem::forget(data);
}

macro_rules! sp {
    ($h:ident, $len:expr, $be:expr, $($stub:meta),*) => {
        #[kani::proof]
        #[kani::unwind(10)]
        #[kani::stub(alloc::fmt::format, no_format)]
        #[kani::stub(<std::os::fd::OwnedFd as core::ops::Drop>::drop, no_close)]
        $(#[$stub])*
        fn $h() {
            let buf: [u8; 8] = kani::any();
            let len: usize = $len;
            kani::assume(len <= 8);
            body(&buf, len, $be);
        }
    };
}
sp!(sp1, 8, false,);
sp!(sp2, 8, false, kani::stub(core::str::from_utf8, naive_from_utf8), kani::stub(core::slice::memchr::memchr, naive_memchr));
sp!(sp3, kani::any(), false, kani::stub(core::str::from_utf8, naive_from_utf8), kani::stub(core::slice::memchr::memchr, naive_memchr));
sp!(sp4, kani::any(), kani::any(), kani::stub(core::str::from_utf8, naive_from_utf8), kani::stub(core::slice::memchr::memchr, naive_memchr));
