use crate::refmodel::dbus::Out;
use std::io::Cursor;
use zvariant::serialized::{Context, Data};
use zvariant::{to_writer_for_signature, Endian, Signature};

/// Environment stub: closing a file descriptor (close(2) + std's debug fcntl probe that formats to stderr).
pub fn no_close(_: &mut std::os::fd::OwnedFd) {}

pub fn no_format(_: core::fmt::Arguments<'_>) -> String {
    String::new()
}

fn ctx(pos: usize, be: bool) -> Context {
    Context::new_dbus(if be { Endian::Big } else { Endian::Little }, pos)
}

/// Loop-free comparison of two 32-byte buffers.
fn same32(a: &[u8; 32], b: &[u8; 32]) -> bool {
    let f = |x: &[u8; 32], o: usize| {
        u64::from_le_bytes([x[o], x[o + 1], x[o + 2], x[o + 3], x[o + 4], x[o + 5], x[o + 6], x[o + 7]])
    };
    f(a, 0) == f(b, 0) && f(a, 8) == f(b, 8) && f(a, 16) == f(b, 16) && f(a, 24) == f(b, 24)
}
fn model32(m: &Out) -> [u8; 32] {
    let b = &m.buf;
    [
        b[0], b[1], b[2], b[3], b[4], b[5], b[6], b[7], b[8], b[9], b[10], b[11], b[12], b[13], b[14], b[15],
        b[16], b[17], b[18], b[19], b[20], b[21], b[22], b[23], b[24], b[25], b[26], b[27], b[28], b[29], b[30], b[31],
    ]
}

#[kani::proof]
#[kani::unwind(9)]
#[kani::stub(alloc::fmt::format, no_format)]
#[kani::stub(<std::os::fd::OwnedFd as core::ops::Drop>::drop, no_close)]
fn p_enc_u32() {
    let v: u32 = kani::any();
    let pos: usize = kani::any();
    kani::assume(pos < 16);
    let be: bool = kani::any();
    let mut buf = [0u8; 32];
    let mut cur = Cursor::new(&mut buf[..]);
    let r = unsafe { to_writer_for_signature(&mut cur, ctx(pos, be), Signature::U32, &v) };
    match r {
        Ok(w) => {
            let n = w.size();
            core::mem::forget(w);
            let mut m = Out::new(pos, be);
            m.u32(v);
            kani::cover!(n == 7);
            assert!(n == m.len);
            assert!(same32(&buf, &model32(&m)));
        }
        Err(e) => {
            core::mem::forget(e);
            assert!(false, "encoding failed");
        }
    }
}

static YU: Signature = Signature::static_structure(&[&Signature::U8, &Signature::U32]);

#[kani::proof]
#[kani::unwind(9)]
#[kani::stub(alloc::fmt::format, no_format)]
#[kani::stub(<std::os::fd::OwnedFd as core::ops::Drop>::drop, no_close)]
fn p_enc_yu() {
    let v: (u8, u32) = kani::any();
    let pos: usize = kani::any();
    kani::assume(pos < 16);
    let be: bool = kani::any();
    let mut buf = [0u8; 32];
    let mut cur = Cursor::new(&mut buf[..]);
    let r = unsafe { to_writer_for_signature(&mut cur, ctx(pos, be), &YU, &v) };
    match r {
        Ok(w) => {
            let n = w.size();
            core::mem::forget(w);
            let mut m = Out::new(pos, be);
            m.struct_begin();
            m.u8(v.0);
            m.u32(v.1);
            kani::cover!(n == 15);
            assert!(n == m.len);
            assert!(same32(&buf, &model32(&m)));
        }
        Err(e) => {
            core::mem::forget(e);
            assert!(false, "encoding failed");
        }
    }
}

#[kani::proof]
#[kani::unwind(9)]
#[kani::stub(alloc::fmt::format, no_format)]
#[kani::stub(<std::os::fd::OwnedFd as core::ops::Drop>::drop, no_close)]
fn p_dec_yu() {
    let buf: [u8; 16] = kani::any();
    let len: usize = kani::any();
    kani::assume(len <= 16);
    let pos: usize = kani::any();
    kani::assume(pos < 8);
    let be: bool = kani::any();
    let data = Data::new(&buf[..len], ctx(pos, be));
    let r = data.deserialize_for_signature::<_, (u8, u32)>(&YU);
    match r {
        Ok(((a, b), n)) => {
            kani::cover!(n == 15);
            // model: decode
            let pad0 = crate::refmodel::dbus::padding(pos, 8);
            assert!(a == buf[pad0]);
            assert!(n == pad0 + 8);
            let w = [buf[pad0 + 4], buf[pad0 + 5], buf[pad0 + 6], buf[pad0 + 7]];
            let exp = if be { u32::from_be_bytes(w) } else { u32::from_le_bytes(w) };
            assert!(b == exp);
        }
        Err(e) => {
            kani::cover!(true, "error path");
            core::mem::forget(e);
        }
    }
    core::mem::forget(data);
}
