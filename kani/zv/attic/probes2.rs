use crate::refmodel::dbus::Out;
use std::io::Cursor;
use zvariant::serialized::{Context, Data};
use zvariant::{to_bytes_for_signature, to_writer_for_signature, Endian, Signature};
use super::probes::no_format;

fn ctx(pos: usize, be: bool) -> Context {
    Context::new_dbus(if be { Endian::Big } else { Endian::Little }, pos)
}

// A: slice cursor, pos 0, endian symbolic, no model
#[kani::proof]
#[kani::unwind(9)]
#[kani::stub(alloc::fmt::format, no_format)]
#[kani::stub(<std::os::fd::OwnedFd as core::ops::Drop>::drop, super::probes::no_close)]
fn q_a() {
    let v: u32 = kani::any();
    let be: bool = kani::any();
    let mut buf = [0u8; 32];
    let mut cur = Cursor::new(&mut buf[..]);
    let r = unsafe { to_writer_for_signature(&mut cur, ctx(0, be), Signature::U32, &v) };
    match r {
        Ok(w) => {
            let n = w.size();
            core::mem::forget(w);
            assert!(n == 4);
            let exp = if be { v.to_be_bytes() } else { v.to_le_bytes() };
            assert!(buf[0] == exp[0] && buf[3] == exp[3]);
        }
        Err(e) => {
            core::mem::forget(e);
            assert!(false, "encoding failed");
        }
    }
}

// B: Vec writer (to_bytes_for_signature), pos symbolic < 8
#[kani::proof]
#[kani::unwind(9)]
#[kani::stub(alloc::fmt::format, no_format)]
#[kani::stub(<std::os::fd::OwnedFd as core::ops::Drop>::drop, super::probes::no_close)]
fn q_b() {
    let v: u32 = kani::any();
    let be: bool = kani::any();
    let pos: usize = kani::any();
    kani::assume(pos < 8);
    let r = to_bytes_for_signature(ctx(pos, be), Signature::U32, &v);
    match r {
        Ok(d) => {
            let pad = crate::refmodel::dbus::padding(pos, 4);
            let b = d.bytes();
            assert!(b.len() == pad + 4);
            let exp = if be { v.to_be_bytes() } else { v.to_le_bytes() };
            assert!(b[pad] == exp[0] && b[pad + 3] == exp[3]);
            core::mem::forget(d);
        }
        Err(e) => {
            core::mem::forget(e);
            assert!(false, "encoding failed");
        }
    }
}

// C: slice cursor, pos symbolic < 8, no model
#[kani::proof]
#[kani::unwind(9)]
#[kani::stub(alloc::fmt::format, no_format)]
#[kani::stub(<std::os::fd::OwnedFd as core::ops::Drop>::drop, super::probes::no_close)]
fn q_c() {
    let v: u32 = kani::any();
    let be: bool = kani::any();
    let pos: usize = kani::any();
    kani::assume(pos < 8);
    let mut buf = [0u8; 32];
    let mut cur = Cursor::new(&mut buf[..]);
    let r = unsafe { to_writer_for_signature(&mut cur, ctx(pos, be), Signature::U32, &v) };
    match r {
        Ok(w) => {
            let n = w.size();
            core::mem::forget(w);
            let pad = crate::refmodel::dbus::padding(pos, 4);
            assert!(n == pad + 4);
            let exp = if be { v.to_be_bytes() } else { v.to_le_bytes() };
            assert!(buf[pad] == exp[0] && buf[pad + 3] == exp[3]);
        }
        Err(e) => {
            core::mem::forget(e);
            assert!(false, "encoding failed");
        }
    }
}

// D: model only
#[kani::proof]
#[kani::unwind(9)]
fn q_d() {
    let v: u32 = kani::any();
    let be: bool = kani::any();
    let pos: usize = kani::any();
    kani::assume(pos < 8);
    let mut m = Out::new(pos, be);
    m.u32(v);
    assert!(m.len <= 7);
}
