use super::probes::{no_close, no_format};
use std::io::Cursor;
use zvariant::serialized::{Context, Data};
use zvariant::{to_writer_for_signature, Endian, Signature};

fn ctx(pos: usize, be: bool) -> Context {
    Context::new_dbus(if be { Endian::Big } else { Endian::Little }, pos)
}
fn yu() -> Signature {
    Signature::static_structure(&[&Signature::U8, &Signature::U32])
}

#[kani::proof]
#[kani::unwind(9)]
#[kani::stub(alloc::fmt::format, no_format)]
#[kani::stub(<std::os::fd::OwnedFd as core::ops::Drop>::drop, no_close)]
fn r1() {
    let v: (u8, u32) = kani::any();
    let mut buf = [0u8; 32];
    let mut cur = Cursor::new(&mut buf[..]);
    let r = unsafe { to_writer_for_signature(&mut cur, ctx(0, false), yu(), &v) };
    match r {
        Ok(w) => {
            let n = w.size();
            core::mem::forget(w);
            assert!(n == 8);
            assert!(buf[0] == v.0 && buf[1] == 0 && buf[4] == v.1 as u8);
        }
        Err(e) => {
            core::mem::forget(e);
            assert!(false, "encoding failed");
        }
    }
}

#[kani::proof]
#[kani::unwind(9)]
#[kani::stub(alloc::fmt::format, no_format)]
#[kani::stub(<std::os::fd::OwnedFd as core::ops::Drop>::drop, no_close)]
fn r2() {
    let v: (u8, u32) = kani::any();
    let be: bool = kani::any();
    let mut buf = [0u8; 32];
    let mut cur = Cursor::new(&mut buf[..]);
    let r = unsafe { to_writer_for_signature(&mut cur, ctx(0, be), yu(), &v) };
    match r {
        Ok(w) => {
            let n = w.size();
            core::mem::forget(w);
            assert!(n == 8);
            assert!(buf[0] == v.0 && buf[1] == 0);
        }
        Err(e) => {
            core::mem::forget(e);
            assert!(false, "encoding failed");
        }
    }
}

#[kani::proof]
#[kani::unwind(9)]
#[kani::stub(alloc::fmt::format, no_format)]
#[kani::stub(<std::os::fd::OwnedFd as core::ops::Drop>::drop, no_close)]
fn r3() {
    let buf: [u8; 8] = kani::any();
    let data = Data::new(&buf[..], ctx(0, false));
    let r = data.deserialize_for_signature::<_, (u8, u32)>(yu());
    match r {
        Ok(((a, b), n)) => {
            assert!(n == 8);
            assert!(a == buf[0]);
            assert!(b == u32::from_le_bytes([buf[4], buf[5], buf[6], buf[7]]));
        }
        Err(e) => {
            kani::cover!(true, "error path");
            core::mem::forget(e);
        }
    }
    core::mem::forget(data);
}

#[kani::proof]
#[kani::unwind(9)]
#[kani::stub(alloc::fmt::format, no_format)]
#[kani::stub(<std::os::fd::OwnedFd as core::ops::Drop>::drop, no_close)]
fn r4() {
    let buf: [u8; 8] = kani::any();
    let len: usize = kani::any();
    kani::assume(len <= 8);
    let pos: usize = kani::any();
    kani::assume(pos < 8);
    let data = Data::new(&buf[..len], ctx(pos, false));
    let r = data.deserialize_for_signature::<_, u32>(Signature::U32);
    match r {
        Ok((b, n)) => {
            let pad = crate::refmodel::dbus::padding(pos, 4);
            assert!(n == pad + 4);
            assert!(b == u32::from_le_bytes([buf[pad], buf[pad + 1], buf[pad + 2], buf[pad + 3]]));
        }
        Err(e) => {
            kani::cover!(true, "error path");
            core::mem::forget(e);
        }
    }
    core::mem::forget(data);
}
