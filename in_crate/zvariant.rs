//! In-crate Kani harnesses for zvariant (included by the `#[cfg(kani)]` hook in
//! zvariant/src/lib.rs). Being a child module of the crate root gives access to
//! the private kernels the properties are anchored in.
#![allow(dead_code, unused_imports)]

use crate::container_depths::ContainerDepths;
use crate::{Error, MaxDepthExceeded};

pub fn no_format(_: core::fmt::Arguments<'_>) -> String {
    String::new()
}

// ---------------------------------------------------------------- C07 (1): depth counter algebra

#[cfg(feature = "gvariant")]
const ND: usize = 4;
#[cfg(not(feature = "gvariant"))]
const ND: usize = 3;

fn ok_or_die(r: crate::Result<ContainerDepths>) -> ContainerDepths {
    match r {
        Ok(d) => d,
        Err(e) => {
            core::mem::forget(e);
            panic!("unexpected depth error");
        }
    }
}

fn raw(d: ContainerDepths) -> [u8; ND] {
    // ContainerDepths is a plain struct of ND u8 counters (checked by the size assertion below).
    unsafe { core::mem::transmute::<ContainerDepths, [u8; ND]>(d) }
}

/// Build an arbitrary counter state with `s` structures, `a` arrays, `v` variants (and `m` maybes) directly in
/// memory. The byte position of each counter is *measured* on the compiled type by incrementing each kind once
/// from the default state, so no assumption about field order is made.
fn depths_state(s: u8, a: u8, v: u8, m: u8) -> ContainerDepths {
    assert!(core::mem::size_of::<ContainerDepths>() == ND);
    let zero = raw(ContainerDepths::default());
    assert!(zero == [0u8; ND]);
    let rs = raw(ok_or_die(ContainerDepths::default().inc_structure()));
    let ra = raw(ok_or_die(ContainerDepths::default().inc_array()));
    let rv = raw(ok_or_die(ContainerDepths::default().inc_variant()));
    let mut out = [0u8; ND];
    let mut i = 0;
    while i < ND {
        assert!(rs[i] + ra[i] + rv[i] <= 1);
        if rs[i] == 1 {
            out[i] = s;
        }
        if ra[i] == 1 {
            out[i] = a;
        }
        if rv[i] == 1 {
            out[i] = v;
        }
        i += 1;
    }
    #[cfg(feature = "gvariant")]
    {
        let rm = raw(ok_or_die(ContainerDepths::default().inc_maybe()));
        let mut i = 0;
        while i < ND {
            if rm[i] == 1 {
                assert!(rs[i] + ra[i] + rv[i] == 0);
                out[i] = m;
            }
            i += 1;
        }
    }
    let _ = m;
    unsafe { core::mem::transmute::<[u8; ND], ContainerDepths>(out) }
}

#[derive(PartialEq, Clone, Copy)]
enum Spec {
    Ok,
    Structure,
    Array,
    Container,
}

/// Specification of the limits: 32 structures, 32 arrays, 64 containers in
/// total; structure limit reported first, then array, then total.
fn spec_after(s: u32, a: u32, total: u32) -> Spec {
    if s > 32 {
        Spec::Structure
    } else if a > 32 {
        Spec::Array
    } else if total > 64 {
        Spec::Container
    } else {
        Spec::Ok
    }
}

fn classify(r: crate::Result<ContainerDepths>) -> (Spec, Option<ContainerDepths>) {
    // Never run the drop glue of zvariant::Error (it is the recursive Signature/String/Arc<io::Error> glue that
    // dominates CBMC's cost and is irrelevant here): inspect by reference, then forget.
    let out = match &r {
        Ok(d) => (Spec::Ok, Some(*d)),
        Err(Error::MaxDepthExceeded(MaxDepthExceeded::Structure)) => (Spec::Structure, None),
        Err(Error::MaxDepthExceeded(MaxDepthExceeded::Array)) => (Spec::Array, None),
        Err(Error::MaxDepthExceeded(MaxDepthExceeded::Container)) => (Spec::Container, None),
        Err(_) => panic!("depth check returned a non-depth error"),
    };
    core::mem::forget(r);
    out
}

fn sym_counts() -> (u8, u8, u8, u8) {
    let s: u8 = kani::any();
    let a: u8 = kani::any();
    let v: u8 = kani::any();
    let m: u8 = kani::any();
    kani::assume(s <= 32 && a <= 32 && v <= 64);
    #[cfg(feature = "gvariant")]
    kani::assume(m <= 64);
    #[cfg(not(feature = "gvariant"))]
    kani::assume(m == 0);
    kani::assume(s as u32 + a as u32 + v as u32 + m as u32 <= 64);
    (s, a, v, m)
}

/// One step from every reachable state: each inc_* fails exactly when the
/// limit is exceeded (with the right kind), otherwise yields the state with
/// exactly that counter incremented; dec_* undoes inc_*; no u8 overflow.
#[kani::proof]
#[kani::unwind(6)]
fn c07_depths_step() {
    let (s, a, v, m) = sym_counts();
    let d = depths_state(s, a, v, m);
    let total = s as u32 + a as u32 + v as u32 + m as u32;
    let kind: u8 = kani::any();
    kani::assume(kind < 4);
    match kind {
        0 => {
            let (got, nd) = classify(d.inc_structure());
            assert!(got == spec_after(s as u32 + 1, a as u32, total + 1));
            kani::cover!(got == Spec::Structure);
            kani::cover!(got == Spec::Container);
            if let Some(nd) = nd {
                // the successor state behaves like reachable_depths(s+1,..): compare via a further probe
                let back = nd.dec_structure();
                let (g2, _) = classify(back.inc_structure());
                assert!(g2 == Spec::Ok);
                // and the successor is one structure deeper: 32-s more structure increments fit at most
                let (g3, _) = classify(nd.inc_structure());
                assert!(g3 == spec_after(s as u32 + 2, a as u32, total + 2));
            }
        }
        1 => {
            let (got, nd) = classify(d.inc_array());
            assert!(got == spec_after(s as u32, a as u32 + 1, total + 1));
            kani::cover!(got == Spec::Array);
            if let Some(nd) = nd {
                let back = nd.dec_array();
                let (g2, _) = classify(back.inc_array());
                assert!(g2 == Spec::Ok);
                let (g3, _) = classify(nd.inc_array());
                assert!(g3 == spec_after(s as u32, a as u32 + 2, total + 2));
            }
        }
        2 => {
            let (got, nd) = classify(d.inc_variant());
            assert!(got == spec_after(s as u32, a as u32, total + 1));
            kani::cover!(got == Spec::Container);
            kani::cover!(got == Spec::Ok);
            if let Some(nd) = nd {
                let (g3, _) = classify(nd.inc_variant());
                assert!(g3 == spec_after(s as u32, a as u32, total + 2));
            }
        }
        _ => {
            #[cfg(feature = "gvariant")]
            {
                let (got, nd) = classify(d.inc_maybe());
                assert!(got == spec_after(s as u32, a as u32, total + 1));
                if let Some(nd) = nd {
                    let back = nd.dec_maybe();
                    let (g2, _) = classify(back.inc_maybe());
                    assert!(g2 == Spec::Ok);
                }
            }
        }
    }
}

// ---------------------------------------------------------------- C01: padding kernel

/// `padding_for_n_bytes(value, align)` is `(-value) mod align` for every usize
/// value and every D-Bus/GVariant alignment.
#[kani::proof]
fn c01_padding_kernel() {
    let value: usize = kani::any();
    let sel: u8 = kani::any();
    kani::assume(sel < 4);
    let align = 1usize << sel; // 1,2,4,8
    let p = crate::utils::padding_for_n_bytes(value, align);
    assert!(p < align);
    let r = value % align;
    let expected = if r == 0 { 0 } else { align - r };
    assert!(p == expected);
    kani::cover!(p == 7);
    kani::cover!(value == usize::MAX);
}

// ---------------------------------------------------------------- C05 (a): framing offset kernels

#[cfg(feature = "gvariant")]
mod gv {
    use crate::framing_offset_size::FramingOffsetSize;
    use crate::framing_offsets::FramingOffsets;

    fn spec_width(len: u128, n: u128) -> usize {
        // smallest w in {1,2,4,8} such that the container including its n offsets of w bytes
        // is addressable with w-byte offsets: len + n*w <= 2^(8w) - 1
        if len + n <= 0xff {
            1
        } else if len + 2 * n <= 0xffff {
            2
        } else if len + 4 * n <= 0xffff_ffff {
            4
        } else {
            8
        }
    }

    #[kani::proof]
    #[kani::unwind(6)]
    fn c05_offset_size_selection() {
        let len: usize = kani::any();
        let n: usize = kani::any();
        // sizes of real in-memory containers: no usize overflow in len + 8n
        kani::assume(len <= (1usize << 62) && n <= (1usize << 58));
        let got = FramingOffsetSize::for_bare_container(len, n) as usize;
        assert!(got == spec_width(len as u128, n as u128));
        kani::cover!(got == 1);
        kani::cover!(got == 2);
        kani::cover!(got == 4);
        kani::cover!(got == 8);
        kani::cover!(len == 254 && n == 1);
    }

    #[kani::proof]
    #[kani::unwind(10)]
    #[kani::stub(alloc::fmt::format, super::no_format)]
    fn c05_offset_write_read_inverse() {
        let sel: u8 = kani::any();
        kani::assume(sel < 4);
        let (size, w) = match sel {
            0 => (FramingOffsetSize::U8, 1usize),
            1 => (FramingOffsetSize::U16, 2),
            2 => (FramingOffsetSize::U32, 4),
            _ => (FramingOffsetSize::U64, 8),
        };
        let off: usize = kani::any();
        // offset must be representable in w bytes (guaranteed by the width selection above)
        kani::assume(w == 8 || off < (1usize << (8 * w)));
        let mut buf = [0u8; 8];
        let mut cur = std::io::Cursor::new(&mut buf[..]);
        let r = size.write_offset(&mut cur, off);
        let ok = r.is_ok();
        core::mem::forget(r);
        assert!(ok);
        let written = cur.position() as usize;
        assert!(written == w);
        // little-endian, exactly w bytes
        let mut i = 0;
        while i < 8 {
            let expect = if i < w { (off >> (8 * i)) as u8 } else { 0 };
            assert!(buf[i] == expect);
            i += 1;
        }
        let back = size.read_last_offset_from_buffer(&buf[..w]);
        assert!(back == off);
        kani::cover!(w == 2 && off == 0xffff);
    }

    /// Decoding the framing offsets of an arbitrary (hostile) container of up to 6 bytes never
    /// panics, and every returned offset is bounded by the start of the offset table.
    #[kani::proof]
    #[kani::unwind(8)]
    #[kani::stub(alloc::fmt::format, super::no_format)]
    fn c04_framing_offsets_decode_total() {
        let buf: [u8; 6] = kani::any();
        let len: usize = kani::any();
        kani::assume(len <= 6);
        let r = FramingOffsets::from_encoded_array(&buf[..len]);
        match r {
            Ok((mut offs, table_len)) => {
                assert!(table_len <= len);
                let start = len - table_len;
                let mut count = 0usize;
                while let Some(o) = offs.pop() {
                    assert!(o <= start);
                    count += 1;
                }
                assert!(count == table_len); // 1-byte offsets for containers < 256 bytes
                kani::cover!(count == 3);
                core::mem::forget(offs);
            }
            Err(e) => {
                kani::cover!(true, "rejected");
                core::mem::forget(e);
            }
        }
    }
}

// ---------------------------------------------------------------- C01: array (sequence) kernel of the D-Bus serializer
//
// Drives the real `dbus::Serializer` through serde's `Serializer::serialize_seq` / `SerializeSeq` API with a
// statically known element type, symbolic message offset, byte order, element count (0..=2) and element values,
// and compares all bytes with a reference layout computed from the spec: 4-aligned u32 byte length (excluding the
// padding that follows it), padding to the element alignment (present even when empty), then the elements.
mod seq_kernel {
    use super::no_format;
    use crate::dbus::Serializer as DBusSerializer;
    use crate::ser::FdList;
    use crate::serialized::Context;
    use crate::{Endian, Signature};
    use serde::ser::{SerializeSeq, Serializer as _};
    use std::io::Cursor;

    fn pad_to(abs: usize, align: usize) -> usize {
        let r = abs % align;
        if r == 0 {
            0
        } else {
            align - r
        }
    }

    fn put(buf: &mut [u8; 48], at: usize, v: u64, n: usize, be: bool) {
        let mut i = 0;
        while i < n {
            let shift = if be { 8 * (n - 1 - i) } else { 8 * i };
            buf[at + i] = (v >> shift) as u8;
            i += 1;
        }
    }

    fn same48(a: &[u8; 48], b: &[u8; 48]) -> bool {
        let f = |x: &[u8; 48], o: usize| {
            u64::from_le_bytes([x[o], x[o + 1], x[o + 2], x[o + 3], x[o + 4], x[o + 5], x[o + 6], x[o + 7]])
        };
        f(a, 0) == f(b, 0)
            && f(a, 8) == f(b, 8)
            && f(a, 16) == f(b, 16)
            && f(a, 24) == f(b, 24)
            && f(a, 32) == f(b, 32)
            && f(a, 40) == f(b, 40)
    }

    macro_rules! seq_kernel {
        ($h:ident, $hb:ident, $hc:ident, $hd:ident, $ty:ty, $esz:expr, $sig:expr, |$v:ident| $as64:expr) => {
            #[kani::proof]
            #[kani::unwind(9)]
            #[kani::stub(alloc::fmt::format, no_format)]
            fn $h() {
                let pos: usize = kani::any();
                kani::assume(pos < 8);
                let be: bool = kani::any();
                let k: usize = kani::any();
                kani::assume(k <= 1);
                $hb(pos, be, k);
            }
            #[kani::proof]
            #[kani::unwind(9)]
            #[kani::stub(alloc::fmt::format, no_format)]
            fn $hc() {
                $hb(0, false, 1);
            }
            #[kani::proof]
            #[kani::unwind(9)]
            #[kani::stub(alloc::fmt::format, no_format)]
            fn $hd() {
                let pos: usize = kani::any();
                kani::assume(pos < 8);
                $hb(pos, false, 1);
            }
            fn $hb(pos: usize, be: bool, k: usize) {
                static SIG: Signature = Signature::static_array(&$sig);
                let vals: [$ty; 1] = kani::any();
                let ctxt = Context::new_dbus(if be { Endian::Big } else { Endian::Little }, pos);
                let mut buf = [0u8; 48];
                let mut cur = Cursor::new(&mut buf[..]);
                let mut fds = FdList::Number(0);
                let mut ok = true;
                let written;
                {
                    let mut ser = match DBusSerializer::new(&SIG, &mut cur, &mut fds, ctxt) {
                        Ok(s) => s,
                        Err(e) => {
                            core::mem::forget(e);
                            panic!("serializer construction failed")
                        }
                    };
                    match (&mut ser).serialize_seq(None) {
                        Ok(mut seq) => {
                            let mut i = 0;
                            while i < k {
                                let r = seq.serialize_element(&vals[i]);
                                ok &= r.is_ok();
                                core::mem::forget(r);
                                i += 1;
                            }
                            let r = seq.end();
                            ok &= r.is_ok();
                            core::mem::forget(r);
                        }
                        Err(e) => {
                            core::mem::forget(e);
                            ok = false;
                        }
                    }
                    written = ser.0.bytes_written;
                    core::mem::forget(ser);
                }
                assert!(ok, "serializing a well-typed array failed");
                // ---- reference layout
                let mut m = [0u8; 48];
                let p0 = pad_to(pos, 4);
                let len_at = p0;
                let p1 = pad_to(pos + len_at + 4, $esz);
                let first = len_at + 4 + p1;
                let mut at = first;
                let mut i = 0;
                while i < k {
                    let $v = vals[i];
                    put(&mut m, at, $as64, $esz, be);
                    at += $esz;
                    i += 1;
                }
                put(&mut m, len_at, (k * $esz) as u64, 4, be);
                kani::cover!(k == 1 && p1 > 0, "one element after element padding");
                kani::cover!(k == 0 && p0 == 3, "empty array at odd offset");
                assert!(written == at, "array: number of bytes written differs from the marshalling rules");
                assert!(cur.position() as usize == at, "array: writer not left at the end of the array");
                assert!(same48(&buf, &m), "array: bytes differ from the marshalling rules");
            }
        };
    }
    seq_kernel!(c01_seq_y, c01_seq_y_body, c01_seq_y_conc, c01_seq_y_pos, u8, 1, Signature::U8, |v| v as u64);
    seq_kernel!(c01_seq_q, c01_seq_q_body, c01_seq_q_conc, c01_seq_q_pos, u16, 2, Signature::U16, |v| v as u64);
    seq_kernel!(c01_seq_u, c01_seq_u_body, c01_seq_u_conc, c01_seq_u_pos, u32, 4, Signature::U32, |v| v as u64);
    seq_kernel!(c01_seq_t, c01_seq_t_body, c01_seq_t_conc, c01_seq_t_pos, u64, 8, Signature::U64, |v| v);
}

// ---------------------------------------------------------------- C07 (2): depth accounting at the container entry points
//
// One inductive step per call site: a live (de)serializer gets an arbitrary depth state `d` (see depths_state), then
// enters two nested containers of one kind. Expected: the outer entry fails iff `d + 1` exceeds a limit, otherwise the
// inner entry fails iff `d + 2` does (so the child really observed `d + 1`), with the documented error kind; and
// after a successful exit the state is `d` again. Histories of any length follow by induction over container entries.
mod depth_sites {
    use super::{depths_state, no_format, raw, spec_after, sym_counts, Spec};
    use crate::dbus::{Deserializer as DBusDeserializer, Serializer as DBusSerializer};
    use crate::ser::FdList;
    use crate::serialized::Context;
    use crate::{Endian, Error, MaxDepthExceeded, Signature};
    use serde::de::{DeserializeSeed, SeqAccess, Visitor};
    use serde::{Deserialize, Deserializer as _, Serialize};
    use std::io::Cursor;

    fn kind_of<T>(r: &crate::Result<T>) -> Spec {
        match r {
            Ok(_) => Spec::Ok,
            Err(Error::MaxDepthExceeded(MaxDepthExceeded::Structure)) => Spec::Structure,
            Err(Error::MaxDepthExceeded(MaxDepthExceeded::Array)) => Spec::Array,
            Err(Error::MaxDepthExceeded(MaxDepthExceeded::Container)) => Spec::Container,
            Err(_) => panic!("container entry failed with a non-depth error"),
        }
    }

    /// expected outcome of entering two nested containers (ds, da = per-level increments of structure / array counters)
    fn expect2(s: u8, a: u8, total: u32, ds: u32, da: u32) -> Spec {
        let first = spec_after(s as u32 + ds, a as u32 + da, total + 1);
        if first != Spec::Ok {
            return first;
        }
        spec_after(s as u32 + 2 * ds, a as u32 + 2 * da, total + 2)
    }

    // Signatures are built as *local values* from promoted constants: a `static` Signature makes CBMC lose the
    // `&'static Signature` pointer targets (measured: out of memory with no symbolic input at all).
    static S1: Signature = Signature::static_structure(&[&Signature::U8]);
    static A1: Signature = Signature::static_array(&Signature::U8);
    static S1_FIELDS: [&Signature; 1] = [&S1];
    fn s2() -> Signature {
        Signature::static_structure(&S1_FIELDS)
    }
    fn a2() -> Signature {
        Signature::static_array(&A1)
    }

    macro_rules! ser_site {
        ($h:ident, $sig:expr, $val:expr, $ds:expr, $da:expr) => {
            #[kani::proof]
            #[kani::unwind(6)]
            #[kani::stub(alloc::fmt::format, no_format)]
            fn $h() {
                let (s, a, v, m) = sym_counts();
                let d = depths_state(s, a, v, m);
                let total = s as u32 + a as u32 + v as u32 + m as u32;
                let ctxt = Context::new_dbus(Endian::Little, 0);
                let sig: Signature = $sig;
                let mut buf = [0u8; 32];
                let mut cur = Cursor::new(&mut buf[..]);
                let mut fds = FdList::Number(0);
                let mut ser = match DBusSerializer::new(&sig, &mut cur, &mut fds, ctxt) {
                    Ok(s) => s,
                    Err(e) => {
                        core::mem::forget(e);
                        panic!("serializer construction failed")
                    }
                };
                ser.0.container_depths = d;
                let val = $val;
                let r = val.serialize(&mut ser);
                let got = kind_of(&r);
                core::mem::forget(r);
                let want = expect2(s, a, total, $ds, $da);
                kani::cover!(got == Spec::Ok, "within limits");
                kani::cover!(got == Spec::Container, "total limit hit");
                assert!(got == want, "serializer: depth limit not enforced exactly at this container entry");
                if got == Spec::Ok {
                    assert!(raw(ser.0.container_depths) == raw(d), "serializer: depth state not restored after the container");
                }
                core::mem::forget(ser);
            }
        };
    }
    ser_site!(c07_site_ser_struct, s2(), ((7u8,),), 1, 0);
    ser_site!(c07_site_ser_array, a2(), [[7u8; 1]; 1], 0, 1);

    // ---- minimal Deserialize targets that do not allocate
    struct Bytes0; // consumes a sequence of u8
    impl<'de> Deserialize<'de> for Bytes0 {
        fn deserialize<D: serde::Deserializer<'de>>(d: D) -> Result<Self, D::Error> {
            struct V;
            impl<'de> Visitor<'de> for V {
                type Value = Bytes0;
                fn expecting(&self, _: &mut std::fmt::Formatter<'_>) -> std::fmt::Result {
                    Ok(())
                }
                fn visit_seq<A: SeqAccess<'de>>(self, mut seq: A) -> Result<Bytes0, A::Error> {
                    while let Some(_) = seq.next_element::<u8>()? {}
                    Ok(Bytes0)
                }
            }
            d.deserialize_seq(V)
        }
    }
    struct Nested; // consumes a sequence of Bytes0
    impl<'de> Deserialize<'de> for Nested {
        fn deserialize<D: serde::Deserializer<'de>>(d: D) -> Result<Self, D::Error> {
            struct V;
            impl<'de> Visitor<'de> for V {
                type Value = Nested;
                fn expecting(&self, _: &mut std::fmt::Formatter<'_>) -> std::fmt::Result {
                    Ok(())
                }
                fn visit_seq<A: SeqAccess<'de>>(self, mut seq: A) -> Result<Nested, A::Error> {
                    while let Some(_) = seq.next_element::<Bytes0>()? {}
                    Ok(Nested)
                }
            }
            d.deserialize_seq(V)
        }
    }

    macro_rules! de_site {
        ($h:ident, $target:ty, $sig:expr, $bytes:expr, $ds:expr, $da:expr) => {
            #[kani::proof]
            #[kani::unwind(6)]
            #[kani::stub(alloc::fmt::format, no_format)]
            fn $h() {
                let (s, a, v, m) = sym_counts();
                let d = depths_state(s, a, v, m);
                let total = s as u32 + a as u32 + v as u32 + m as u32;
                let ctxt = Context::new_dbus(Endian::Little, 0);
                let bytes = $bytes;
                let sig: Signature = $sig;
                let mut de = match DBusDeserializer::<std::os::fd::BorrowedFd<'static>>::new(&bytes[..], None, &sig, ctxt) {
                    Ok(d) => d,
                    Err(e) => {
                        core::mem::forget(e);
                        panic!("deserializer construction failed")
                    }
                };
                de.0.container_depths = d;
                let r = <$target>::deserialize(&mut de);
                let got = kind_of(&r);
                core::mem::forget(r);
                let want = expect2(s, a, total, $ds, $da);
                kani::cover!(got == Spec::Ok, "within limits");
                kani::cover!(got == Spec::Container, "total limit hit");
                assert!(got == want, "deserializer: depth limit not enforced exactly at this container entry");
                if got == Spec::Ok {
                    assert!(raw(de.0.container_depths) == raw(d), "deserializer: depth state not restored after the container");
                    assert!(de.0.pos == bytes.len());
                }
            }
        };
    }
    // real serde tuple visitors (they do not ask for an element past the last field)
    de_site!(c07_site_de_struct, ((u8,),), s2(), [7u8], 1, 0);
    de_site!(c07_site_de_array, Nested, a2(), [5u8, 0, 0, 0, 1, 0, 0, 0, 7], 0, 1);

    // ---- variants: `v` holding `v` holding `y`, read without building a Value
    struct Var<T>(T);
    impl<'de, T: Deserialize<'de>> Deserialize<'de> for Var<T> {
        fn deserialize<D: serde::Deserializer<'de>>(d: D) -> Result<Self, D::Error> {
            struct V<T>(core::marker::PhantomData<T>);
            impl<'de, T: Deserialize<'de>> Visitor<'de> for V<T> {
                type Value = Var<T>;
                fn expecting(&self, _: &mut std::fmt::Formatter<'_>) -> std::fmt::Result {
                    Ok(())
                }
                fn visit_seq<A: SeqAccess<'de>>(self, mut seq: A) -> Result<Var<T>, A::Error> {
                    let _sig: Option<&'de str> = seq.next_element()?;
                    match seq.next_element::<T>()? {
                        Some(x) => Ok(Var(x)),
                        None => Err(serde::de::Error::custom("variant without a value")),
                    }
                }
            }
            d.deserialize_seq(V(core::marker::PhantomData))
        }
    }
    de_site!(c07_site_de_variant, Var<Var<u8>>, Signature::Variant, [1u8, b'v', 0, 1, b'y', 0, 7], 0, 0);
}

/// Harness-provided in-memory writer: fixed buffer, never fails (capacity is asserted instead), trivially seekable.
pub struct FixedWriter {
    pub buf: [u8; 48],
    pub pos: usize,
}
impl FixedWriter {
    pub fn new() -> Self {
        FixedWriter { buf: [0; 48], pos: 0 }
    }
}
impl std::io::Write for FixedWriter {
    fn write(&mut self, data: &[u8]) -> std::io::Result<usize> {
        assert!(data.len() <= 48 - self.pos, "harness buffer too small");
        let mut i = 0;
        while i < data.len() {
            self.buf[self.pos + i] = data[i];
            i += 1;
        }
        self.pos += data.len();
        Ok(data.len())
    }
    fn flush(&mut self) -> std::io::Result<()> {
        Ok(())
    }
}
impl std::io::Seek for FixedWriter {
    fn seek(&mut self, p: std::io::SeekFrom) -> std::io::Result<u64> {
        match p {
            std::io::SeekFrom::Start(n) => self.pos = n as usize,
            std::io::SeekFrom::Current(d) => {
                let np = self.pos as i64 + d;
                assert!(np >= 0 && np <= 48, "seek outside the harness buffer");
                self.pos = np as usize;
            }
            std::io::SeekFrom::End(d) => self.pos = (48 + d) as usize,
        }
        Ok(self.pos as u64)
    }
}

mod bisect {
    use super::{no_format, FixedWriter};
    use crate::dbus::Serializer as DBusSerializer;
    use crate::ser::FdList;
    use crate::serialized::Context;
    use crate::{Endian, Signature};
    use serde::ser::{SerializeSeq, Serializer as _};
    static SIG: Signature = Signature::static_array(&Signature::U64);

    fn run(stage: u8, pos: usize, be: bool) {
        run2(stage, pos, be, kani::any())
    }
    fn run2(stage: u8, pos: usize, be: bool, v: u64) {
        let ctxt = Context::new_dbus(if be { Endian::Big } else { Endian::Little }, pos);
        let mut cur = FixedWriter::new();
        let mut fds = FdList::Number(0);
        let mut ser = match DBusSerializer::new(&SIG, &mut cur, &mut fds, ctxt) {
            Ok(s) => s,
            Err(e) => {
                core::mem::forget(e);
                panic!()
            }
        };
        match (&mut ser).serialize_seq(None) {
            Ok(mut seq) => {
                if stage >= 2 {
                    let r = seq.serialize_element(&v);
                    assert!(r.is_ok());
                    core::mem::forget(r);
                }
                if stage >= 3 {
                    let r = seq.end();
                    assert!(r.is_ok());
                    core::mem::forget(r);
                } else {
                    core::mem::forget(seq);
                }
            }
            Err(e) => {
                core::mem::forget(e);
                panic!()
            }
        }
        let w = ser.0.bytes_written;
        core::mem::forget(ser);
        assert!(w >= 8);
    }
    #[kani::proof]
    #[kani::unwind(9)]
    #[kani::stub(alloc::fmt::format, no_format)]
    fn bis2() {
        run(2, 0, false)
    }
    #[kani::proof]
    #[kani::unwind(9)]
    #[kani::stub(alloc::fmt::format, no_format)]
    fn bis3() {
        run(3, 0, false)
    }
    #[kani::proof]
    #[kani::unwind(9)]
    #[kani::stub(alloc::fmt::format, no_format)]
    fn bis5() {
        run2(2, 0, false, 5)
    }
    #[kani::proof]
    #[kani::unwind(9)]
    #[kani::stub(alloc::fmt::format, no_format)]
    fn bis4() {
        let pos: usize = kani::any();
        kani::assume(pos < 8);
        run(3, pos, kani::any())
    }
}
