#![allow(dead_code, unused_imports)]
// C21 harnesses live in zbus_message.rs (they need message internals to build a placeholder Message).
