#![allow(dead_code, unused_imports)]
