//! C23: percent coding kernels and transport option parsing (child module of zbus::address::transport).
#![allow(dead_code, unused_imports)]
use super::{decode_percents, encode_percents};
use std::fmt::{self, Write as _};

pub fn no_format(_: core::fmt::Arguments<'_>) -> String {
    String::new()
}

// ---- reference: D-Bus spec "Server Addresses": the set of optionally-escaped bytes is
// [-0-9A-Za-z_/.\*]; every other byte must be written as % + two hex digits; decoding accepts
// optionally-escaped bytes literally and %XX (hex, either case) and nothing else.
fn optionally_escaped(b: u8) -> bool {
    matches!(b, b'-' | b'0'..=b'9' | b'A'..=b'Z' | b'a'..=b'z' | b'_' | b'/' | b'.' | b'\\' | b'*')
}
fn hexval(b: u8) -> Option<u8> {
    match b {
        b'0'..=b'9' => Some(b - b'0'),
        b'a'..=b'f' => Some(b - b'a' + 10),
        b'A'..=b'F' => Some(b - b'A' + 10),
        _ => None,
    }
}
/// Reference decoder into a fixed buffer; None = invalid.
fn ref_decode(s: &[u8]) -> Option<([u8; 8], usize)> {
    let mut out = [0u8; 8];
    let mut n = 0;
    let mut i = 0;
    while i < s.len() {
        let b = s[i];
        if optionally_escaped(b) {
            out[n] = b;
            n += 1;
            i += 1;
        } else if b == b'%' {
            if s.len() - i < 3 {
                return None;
            }
            let h = hexval(s[i + 1])?;
            let l = hexval(s[i + 2])?;
            out[n] = (h << 4) | l;
            n += 1;
            i += 3;
        } else {
            return None;
        }
    }
    Some((out, n))
}

/// Fixed-capacity fmt sink.
struct Sink {
    buf: [u8; 16],
    len: usize,
}
impl fmt::Write for Sink {
    fn write_str(&mut self, s: &str) -> fmt::Result {
        let b = s.as_bytes();
        let mut i = 0;
        while i < b.len() {
            if self.len >= 16 {
                return Err(fmt::Error);
            }
            self.buf[self.len] = b[i];
            self.len += 1;
            i += 1;
        }
        Ok(())
    }
}
struct Enc<'a>(&'a [u8]);
impl fmt::Display for Enc<'_> {
    fn fmt(&self, f: &mut fmt::Formatter<'_>) -> fmt::Result {
        encode_percents(f, self.0)
    }
}

fn decode_body(len_lo: usize, len_hi: usize) {
    let buf: [u8; 4] = kani::any();
    let len: usize = kani::any();
    kani::assume(len >= len_lo && len <= len_hi);
    kani::assume(buf[0] < 0x80 && buf[1] < 0x80 && buf[2] < 0x80 && buf[3] < 0x80);
    let s = unsafe { core::str::from_utf8_unchecked(&buf[..len]) };
    let r = decode_percents(s);
    let model = ref_decode(&buf[..len]);
    match (&r, model) {
        (Ok(v), Some((out, n))) => {
            kani::cover!(true, "valid value accepted");
            assert!(v.len() == n, "decoded length differs");
            let mut i = 0;
            while i < n {
                assert!(v[i] == out[i], "decoded byte differs");
                i += 1;
            }
        }
        (Err(_), None) => {
            kani::cover!(true, "invalid value rejected");
        }
        (Ok(_), None) => assert!(false, "decode_percents accepted an invalid escape"),
        (Err(_), Some(_)) => assert!(false, "decode_percents rejected a valid value"),
    }
    core::mem::forget(r);
}

/// decode_percents on every ASCII string of 0..=3 bytes == reference decoder (small enough for counterexample replay).
#[kani::proof]
#[kani::unwind(7)]
#[kani::stub(alloc::fmt::format, no_format)]
fn c23_decode_percents_len3() {
    decode_body(0, 3)
}

/// ... and on every ASCII string of exactly 4 bytes (escape + literal combinations).
#[kani::proof]
#[kani::unwind(7)]
#[kani::stub(alloc::fmt::format, no_format)]
fn c23_decode_percents_len4() {
    decode_body(4, 4)
}

/// encode_percents of every byte string of up to 3 bytes: output uses only optionally-escaped bytes and %XX,
/// literal bytes are exactly the optionally-escaped ones, and the reference decoder maps it back to the input.
fn encode_body(max_len: usize) {
    let buf: [u8; 3] = kani::any();
    let len: usize = kani::any();
    kani::assume(len <= max_len);
    let mut sink = Sink { buf: [0; 16], len: 0 };
    let r = write!(sink, "{}", Enc(&buf[..len]));
    assert!(r.is_ok());
    // expected length: 1 per optionally-escaped byte, 3 per other byte
    let mut expect_len = 0;
    let mut i = 0;
    while i < len {
        expect_len += if optionally_escaped(buf[i]) { 1 } else { 3 };
        i += 1;
    }
    assert!(sink.len == expect_len, "encoded length differs from the escaping rule");
    let back = ref_decode(&sink.buf[..sink.len]);
    match back {
        Some((out, n)) => {
            assert!(n == len);
            let mut i = 0;
            while i < len {
                assert!(out[i] == buf[i], "encode_percents output does not decode to the input");
                i += 1;
            }
        }
        None => assert!(false, "encode_percents produced an invalid escape sequence"),
    }
    kani::cover!(len >= 1 && expect_len == 3 * len, "every byte escaped");
    kani::cover!(len >= 1 && expect_len == len, "no byte escaped");
}

#[kani::proof]
#[kani::unwind(18)]
#[kani::stub(alloc::fmt::format, no_format)]
fn c23_encode_percents_len2() {
    encode_body(2)
}

#[kani::proof]
#[kani::unwind(18)]
#[kani::stub(alloc::fmt::format, no_format)]
fn c23_encode_percents_len3() {
    encode_body(3)
}

// ---- transports: every value the parser hands to a transport is the percent-*decoded* byte string
mod transports {
    use super::super::{Transport, UnixSocket};
    use super::{no_format, ref_decode};
    use std::collections::HashMap;
    use std::os::unix::ffi::OsStrExt;

    /// Environment stub: hash-map seed. Fixed keys make SipHash a concrete computation (the property does not
    /// depend on the seed); the layout of RandomState (two u64) is checked by the size assertion.
    pub fn fixed_random_state() -> std::hash::RandomState {
        assert!(core::mem::size_of::<std::hash::RandomState>() == 16);
        unsafe { core::mem::transmute::<[u64; 2], std::hash::RandomState>([0x0123456789abcdef, 0xfedcba9876543210]) }
    }

    /// `unix:path=<v>` with v = up to 3 symbolic ASCII bytes drawn so that it is a valid escaped value:
    /// the resulting socket path must be the percent-decoded bytes.
    #[kani::proof]
    #[kani::unwind(8)]
    #[kani::stub(alloc::fmt::format, no_format)]
    #[kani::stub(std::hash::RandomState::new, fixed_random_state)]
    fn c23_unix_path_is_decoded() {
        let buf: [u8; 3] = kani::any();
        let len: usize = kani::any();
        kani::assume(len >= 1 && len <= 3);
        kani::assume(buf[0] < 0x80 && buf[1] < 0x80 && buf[2] < 0x80);
        let v = unsafe { core::str::from_utf8_unchecked(&buf[..len]) };
        let want = ref_decode(&buf[..len]);
        kani::assume(want.is_some()); // only valid escaped values
        let (out, n) = want.unwrap();
        let mut opts: HashMap<&str, &str> = HashMap::new();
        opts.insert("path", v);
        let r = Transport::from_options("unix", opts);
        match &r {
            Ok(Transport::Unix(u)) => match u.path() {
                UnixSocket::File(p) => {
                    let b = p.as_os_str().as_bytes();
                    kani::cover!(len == 3 && n == 1, "escaped byte");
                    assert!(b.len() == n, "unix path is not percent-decoded");
                    let mut i = 0;
                    while i < n {
                        assert!(b[i] == out[i], "unix path is not percent-decoded");
                        i += 1;
                    }
                }
                _ => assert!(false, "wrong socket kind"),
            },
            _ => assert!(false, "a valid unix address was rejected"),
        }
        core::mem::forget(r);
    }
}

// ---------------------------------------------------------------- C10: server GUID = exactly 32 hexadecimal digits
mod guid_c10 {
    use super::no_format;
    use crate::Guid;

    fn is_hex(b: u8) -> bool {
        (b >= b'0' && b <= b'9') || (b >= b'a' && b <= b'f') || (b >= b'A' && b <= b'F')
    }
    fn spec_guid(s: &[u8]) -> bool {
        if s.len() != 32 {
            return false;
        }
        let mut i = 0;
        while i < 32 {
            if !is_hex(s[i]) {
                return false;
            }
            i += 1;
        }
        true
    }

    /// 31..=33 bytes, four fully symbolic ASCII positions (first, two in the middle, last), the rest fixed hex digits.
    #[kani::proof]
    #[kani::unwind(40)]
    #[kani::stub(alloc::fmt::format, no_format)]
    fn c10_guid_plain() {
        let mut buf = [b'a'; 33];
        let x: [u8; 4] = kani::any();
        kani::assume(x[0] < 0x80 && x[1] < 0x80 && x[2] < 0x80 && x[3] < 0x80);
        buf[0] = x[0];
        buf[13] = x[1];
        buf[20] = x[2];
        let len: usize = kani::any();
        kani::assume(len >= 31 && len <= 33);
        buf[len - 1] = x[3];
        let s = unsafe { core::str::from_utf8_unchecked(&buf[..len]) };
        let r = Guid::try_from(s);
        let real = r.is_ok();
        core::mem::forget(r);
        let model = spec_guid(&buf[..len]);
        kani::cover!(real, "accepted");
        kani::cover!(!real && len == 32, "rejected 32-byte string");
        assert!(real == model, "GUID acceptance differs from '32 hexadecimal digits'");
    }

    /// UUID-like forms (hyphenated 8-4-4-4-12, braced, urn:uuid:) must be rejected.
    #[kani::proof]
    #[kani::unwind(50)]
    #[kani::stub(alloc::fmt::format, no_format)]
    fn c10_guid_uuid_forms() {
        let which: u8 = kani::any();
        kani::assume(which < 3);
        let s: &'static str = match which {
            0 => "0123abcd-0123-abcd-0123-abcd0123abcd",
            1 => "{0123abcd-0123-abcd-0123-abcd0123abcd}",
            _ => "urn:uuid:0123abcd-0123-abcd-0123-abcd0123abcd",
        };
        let r = Guid::try_from(s);
        let real = r.is_ok();
        core::mem::forget(r);
        kani::cover!(which == 2, "urn form");
        assert!(!real, "a UUID-formatted string was accepted as a server GUID");
    }
}
