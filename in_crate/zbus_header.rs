//! C15: serial numbers. Child module of `zbus::message::header`, so the private process-wide counter is reachable.
#![allow(dead_code, unused_imports)]
use super::{PrimaryHeader, SERIAL_NUM};
use crate::message::Type;
use std::sync::atomic::Ordering::Relaxed;

/// For *every* counter state c (including 0 and the wrap boundary u32::MAX):
///  * the serial handed out is never zero,
///  * it is c, or c+1 when c == 0 (zero is skipped),
///  * the counter advances by exactly the number of values consumed,
///  * a second message built right after gets a different serial.
#[kani::proof]
fn c15_serial_step() {
    let c: u32 = kani::any();
    SERIAL_NUM.store(c, Relaxed);
    let h1 = PrimaryHeader::new(Type::MethodCall, 0);
    let s1 = h1.serial_num().get();
    let after1 = SERIAL_NUM.load(Relaxed);
    assert!(s1 != 0, "serial number is zero");
    if c != 0 {
        assert!(s1 == c);
        assert!(after1 == c.wrapping_add(1));
    } else {
        assert!(s1 == 1);
        assert!(after1 == 2);
    }
    let h2 = PrimaryHeader::new(Type::Signal, 7);
    let s2 = h2.serial_num().get();
    let after2 = SERIAL_NUM.load(Relaxed);
    assert!(s2 != 0, "serial number is zero");
    assert!(s2 != s1, "two consecutive messages share a serial number");
    // every value the counter passes through is handed out at most once: s2 is the first non-zero value at or after after1
    let expect2 = if after1 == 0 { 1 } else { after1 };
    assert!(s2 == expect2);
    assert!(after2 == expect2.wrapping_add(1));
    kani::cover!(c == u32::MAX, "wrap boundary");
    kani::cover!(c == 0, "fresh counter");
    // other header words are what was asked for
    assert!(h2.body_len() == 7 && h1.msg_type() == Type::MethodCall && h2.msg_type() == Type::Signal);
    assert!(h1.protocol_version() == 1 && h1.flags().is_empty());
}

/// k = 3 consecutive messages from any state are pairwise distinct and non-zero.
#[kani::proof]
fn c15_serial_three_distinct() {
    let c: u32 = kani::any();
    SERIAL_NUM.store(c, Relaxed);
    let a = PrimaryHeader::new(Type::MethodCall, 0).serial_num().get();
    let b = PrimaryHeader::new(Type::MethodCall, 0).serial_num().get();
    let d = PrimaryHeader::new(Type::MethodCall, 0).serial_num().get();
    assert!(a != 0 && b != 0 && d != 0);
    assert!(a != b && b != d && a != d);
    kani::cover!(c == u32::MAX - 1);
}

/// C12/C13 (stage S1): the fixed 16-byte header. For every 16-byte string `PrimaryHeader::read` returns without
/// panicking; on success the words are the ones on the wire in the byte order the first byte announces.
#[kani::proof]
#[kani::unwind(10)]
#[kani::stub(alloc::fmt::format, no_format)]
#[kani::stub(<std::os::fd::OwnedFd as core::ops::Drop>::drop, no_close)]
fn c12_primary_header_total() {
    let buf: [u8; 16] = kani::any();
    let r = PrimaryHeader::read(&buf);
    match &r {
        Ok((h, fields_len)) => {
            kani::cover!(true, "some header accepted");
            let be = buf[0] == b'B';
            assert!(be || buf[0] == b'l', "accepted an unknown endianness byte");
            let rd = |o: usize| {
                let w = [buf[o], buf[o + 1], buf[o + 2], buf[o + 3]];
                if be {
                    u32::from_be_bytes(w)
                } else {
                    u32::from_le_bytes(w)
                }
            };
            assert!(h.body_len() == rd(4), "body length word differs from the wire");
            assert!(h.serial_num().get() == rd(8), "serial word differs from the wire");
            assert!(*fields_len == rd(12), "field-array length word differs from the wire");
            assert!(h.protocol_version() == buf[3]);
            assert!(h.msg_type() as u8 == buf[1]);
            assert!(h.flags().bits() == buf[2], "flags differ from the wire");
        }
        Err(_) => {
            kani::cover!(true, "some header rejected");
        }
    }
    core::mem::forget(r);
}

pub fn no_format(_: core::fmt::Arguments<'_>) -> String {
    String::new()
}
pub fn no_close(_: &mut std::os::fd::OwnedFd) {}
