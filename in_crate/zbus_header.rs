//! C15: serial numbers. Child module of `zbus::message::header`, so the private process-wide counter is reachable.
#![allow(dead_code, unused_imports)]
use super::{PrimaryHeader, SERIAL_NUM};
use crate::message::Type;
use std::sync::atomic::Ordering::Relaxed;

/// For *every* counter state c (including 0 and the wrap boundary u32::MAX):
///  * the serial handed out is never zero,
///  * it is c, or c+1 when c == 0 (zero is skipped),
///  * the counter advances by exactly the number of values consumed,
///  * a second message built right after gets a different serial.
#[kani::proof]
fn c15_serial_step() {
    let c: u32 = kani::any();
    SERIAL_NUM.store(c, Relaxed);
    let h1 = PrimaryHeader::new(Type::MethodCall, 0);
    let s1 = h1.serial_num().get();
    let after1 = SERIAL_NUM.load(Relaxed);
    assert!(s1 != 0, "serial number is zero");
    if c != 0 {
        assert!(s1 == c);
        assert!(after1 == c.wrapping_add(1));
    } else {
        assert!(s1 == 1);
        assert!(after1 == 2);
    }
    let h2 = PrimaryHeader::new(Type::Signal, 7);
    let s2 = h2.serial_num().get();
    let after2 = SERIAL_NUM.load(Relaxed);
    assert!(s2 != 0, "serial number is zero");
    assert!(s2 != s1, "two consecutive messages share a serial number");
    // every value the counter passes through is handed out at most once: s2 is the first non-zero value at or after after1
    let expect2 = if after1 == 0 { 1 } else { after1 };
    assert!(s2 == expect2);
    assert!(after2 == expect2.wrapping_add(1));
    kani::cover!(c == u32::MAX, "wrap boundary");
    kani::cover!(c == 0, "fresh counter");
    // other header words are what was asked for
    assert!(h2.body_len() == 7 && h1.msg_type() == Type::MethodCall && h2.msg_type() == Type::Signal);
    assert!(h1.protocol_version() == 1 && h1.flags().is_empty());
}

/// k = 3 consecutive messages from any state are pairwise distinct and non-zero.
#[kani::proof]
fn c15_serial_three_distinct() {
    let c: u32 = kani::any();
    SERIAL_NUM.store(c, Relaxed);
    let a = PrimaryHeader::new(Type::MethodCall, 0).serial_num().get();
    let b = PrimaryHeader::new(Type::MethodCall, 0).serial_num().get();
    let d = PrimaryHeader::new(Type::MethodCall, 0).serial_num().get();
    assert!(a != 0 && b != 0 && d != 0);
    assert!(a != b && b != d && a != d);
    kani::cover!(c == u32::MAX - 1);
}

/// C12/C13 (stage S1): the fixed 16-byte header. For every 16-byte string `PrimaryHeader::read` returns without
/// panicking; on success the words are the ones on the wire in the byte order the first byte announces.
#[kani::proof]
#[kani::unwind(10)]
#[kani::stub(alloc::fmt::format, no_format)]
#[kani::stub(<std::os::fd::OwnedFd as core::ops::Drop>::drop, no_close)]
fn c12_primary_header_total() {
    header_body(kani::any())
}

/// per-byte-order cells (the endianness byte is concrete, the other 15 bytes symbolic)
#[kani::proof]
#[kani::unwind(10)]
#[kani::stub(alloc::fmt::format, no_format)]
#[kani::stub(<std::os::fd::OwnedFd as core::ops::Drop>::drop, no_close)]
fn c12_primary_header_le() {
    header_body(b'l')
}

#[kani::proof]
#[kani::unwind(10)]
#[kani::stub(alloc::fmt::format, no_format)]
#[kani::stub(<std::os::fd::OwnedFd as core::ops::Drop>::drop, no_close)]
fn c12_primary_header_be() {
    header_body(b'B')
}

fn header_body(first: u8) {
    let mut buf: [u8; 16] = kani::any();
    buf[0] = first;
    let r = PrimaryHeader::read(&buf);
    match &r {
        Ok((h, fields_len)) => {
            kani::cover!(true, "some header accepted");
            let be = buf[0] == b'B';
            assert!(be || buf[0] == b'l', "accepted an unknown endianness byte");
            let rd = |o: usize| {
                let w = [buf[o], buf[o + 1], buf[o + 2], buf[o + 3]];
                if be {
                    u32::from_be_bytes(w)
                } else {
                    u32::from_le_bytes(w)
                }
            };
            assert!(h.body_len() == rd(4), "body length word differs from the wire");
            assert!(h.serial_num().get() == rd(8), "serial word differs from the wire");
            assert!(*fields_len == rd(12), "field-array length word differs from the wire");
            assert!(h.protocol_version() == buf[3]);
            assert!(h.msg_type() as u8 == buf[1]);
            assert!(h.flags().bits() == buf[2], "flags differ from the wire");
        }
        Err(_) => {
            kani::cover!(true, "some header rejected");
        }
    }
    core::mem::forget(r);
}

pub fn no_format(_: core::fmt::Arguments<'_>) -> String {
    String::new()
}
pub fn no_close(_: &mut std::os::fd::OwnedFd) {}

// ---------------------------------------------------------------- C13 (fixed header part): unknown flag bits and message types
//
// A little-endian fixed header that is valid in every other respect (version 1, body length 0, serial 1, no fields)
// with a fully symbolic TYPE byte, FLAGS byte and VERSION byte.
fn small_header(ty: u8, flags: u8, version: u8) -> [u8; 16] {
    [b'l', ty, flags, version, 0, 0, 0, 0, 1, 0, 0, 0, 0, 0, 0, 0]
}

/// What zbus implements today, decided exactly: accepted iff the type is one of the four known types and no unknown
/// flag bit is set (the version byte is not checked at this level); on success type/flags/version equal the wire.
#[kani::proof]
#[kani::unwind(10)]
#[kani::stub(alloc::fmt::format, no_format)]
#[kani::stub(<std::os::fd::OwnedFd as core::ops::Drop>::drop, no_close)]
fn c13_header_known_sets_exact() {
    let ty: u8 = kani::any();
    let flags: u8 = kani::any();
    let version: u8 = kani::any();
    let buf = small_header(ty, flags, version);
    let r = PrimaryHeader::read(&buf);
    let known = ty >= 1 && ty <= 4 && flags & !0x7 == 0;
    match &r {
        Ok((h, fl)) => {
            kani::cover!(flags == 0x7, "all known flags set");
            assert!(known, "header with an unknown type or flag accepted without being part of the documented behaviour");
            assert!(h.msg_type() as u8 == ty && h.flags().bits() == flags && h.protocol_version() == version);
            assert!(*fl == 0 && h.body_len() == 0 && h.serial_num().get() == 1);
        }
        Err(_) => {
            kani::cover!(true, "rejected");
            assert!(!known, "a header with a known type and known flags was rejected");
        }
    }
    core::mem::forget(r);
}

/// The property itself (listed findings D8): unknown flag bits must be ignored and unknown types must not make the
/// header undecodable.
#[kani::proof]
#[kani::unwind(10)]
#[kani::stub(alloc::fmt::format, no_format)]
#[kani::stub(<std::os::fd::OwnedFd as core::ops::Drop>::drop, no_close)]
fn c13_unknown_flags_witness() {
    let flags: u8 = kani::any();
    kani::assume(flags & !0x7 != 0);
    let buf = small_header(1, flags, 1);
    let r = PrimaryHeader::read(&buf);
    let ok = r.is_ok();
    core::mem::forget(r);
    assert!(ok, "a valid header with unknown flag bits is rejected instead of the bits being ignored");
}

#[kani::proof]
#[kani::unwind(10)]
#[kani::stub(alloc::fmt::format, no_format)]
#[kani::stub(<std::os::fd::OwnedFd as core::ops::Drop>::drop, no_close)]
fn c13_unknown_type_witness() {
    let ty: u8 = kani::any();
    kani::assume(ty >= 5);
    let buf = small_header(ty, 0, 1);
    let r = PrimaryHeader::read(&buf);
    let ok = r.is_ok();
    core::mem::forget(r);
    assert!(ok, "a valid header with an unknown message type cannot be decoded (so the message cannot be skipped)");
}
