//! Support for C21 (child module of zbus::message): a placeholder `Message` plus harness-controlled replacements for
//! the two accessors `MatchRule::matches` reads header data through. `matches` itself stays the real code.
#![allow(dead_code, unused_imports, static_mut_refs)]
use super::header::{Header, PrimaryHeader};
use super::{Fields, Inner, Message, Sequence, Type};
use std::sync::Arc;
use zvariant::serialized::{Context, Data};
use crate::match_rule::{MatchRule, PathSpec};
use zbus_names::{BusName, InterfaceName, MemberName, UniqueName};
use zvariant::ObjectPath;

pub(crate) static mut FAKE_FIELDS: Option<Fields<'static>> = None;
pub(crate) static mut FAKE_TYPE: Type = Type::Signal;

/// Stub for `Message::header`: a header with the harness-chosen fields.
pub(crate) fn fake_header(_m: &Message) -> Header<'_> {
    let f = unsafe { FAKE_FIELDS.clone() };
    match f {
        Some(f) => Header::new(PrimaryHeader::new(unsafe { FAKE_TYPE }, 0), f),
        None => panic!("harness did not set the fake header fields"),
    }
}

/// Stub for `Message::message_type`.
pub(crate) fn fake_type(_m: &Message) -> Type {
    unsafe { FAKE_TYPE }
}

/// A message object to pass by reference; its contents are never read because both accessors are stubbed and the
/// harness rules carry no argument matchers (so `body()` is not reached).
pub(crate) fn placeholder_message() -> Message {
    Message {
        inner: Arc::new(Inner {
            primary_header: PrimaryHeader::new(Type::Signal, 0),
            quick_fields: std::sync::OnceLock::new(),
            bytes: Data::new(Vec::<u8>::new(), Context::new_dbus(zvariant::LE, 0)),
            body_offset: 0,
            recv_seq: Sequence::default(),
        }),
    }
}

// ====================================================================== C21 harnesses
pub fn no_format(_: core::fmt::Arguments<'_>) -> String {
    String::new()
}

fn empty_rule() -> MatchRule<'static> {
    MatchRule {
        msg_type: None,
        sender: None,
        interface: None,
        member: None,
        path_spec: None,
        destination: None,
        args: Vec::new(),
        arg_paths: Vec::new(),
        arg0ns: None,
    }
}

/// Is `s` a syntactically valid object path (spec grammar)? Same recogniser as the C10 model.
fn valid_path(s: &[u8]) -> bool {
    if s.is_empty() || s[0] != b'/' {
        return false;
    }
    if s.len() == 1 {
        return true;
    }
    let mut prev_slash = true;
    let mut i = 1;
    while i < s.len() {
        let b = s[i];
        if b == b'/' {
            if prev_slash {
                return false;
            }
            prev_slash = true;
        } else {
            if !((b >= b'a' && b <= b'z') || (b >= b'A' && b <= b'Z') || (b >= b'0' && b <= b'9') || b == b'_') {
                return false;
            }
            prev_slash = false;
        }
        i += 1;
    }
    !prev_slash
}

/// D-Bus specification, match rule key `path_namespace`: "Matches messages which are sent from or to an object for
/// which the object path is either the same as the value, or has the value as a prefix followed by '/'"; the root
/// namespace "/" matches everything.
fn spec_in_namespace(path: &[u8], ns: &[u8]) -> bool {
    if ns.len() == 1 {
        return true; // "/"
    }
    if path.len() < ns.len() {
        return false;
    }
    let mut i = 0;
    while i < ns.len() {
        if path[i] != ns[i] {
            return false;
        }
        i += 1;
    }
    path.len() == ns.len() || path[ns.len()] == b'/'
}

/// path_namespace in {"/", "/a", "/a/b"} (symbolic choice) against every valid message path of up to 5 bytes.
#[kani::proof]
#[kani::unwind(8)]
#[kani::stub(alloc::fmt::format, no_format)]
#[kani::stub(crate::message::Message::header, fake_header)]
#[kani::stub(crate::message::Message::message_type, fake_type)]
fn c21_path_namespace() {
    let buf: [u8; 5] = kani::any();
    let len: usize = kani::any();
    kani::assume(len >= 1 && len <= 5);
    let buf: &'static [u8; 5] = Box::leak(Box::new(buf));
    kani::assume(valid_path(&buf[..len]));
    let path: &'static str = unsafe { core::str::from_utf8_unchecked(&buf[..len]) };
    let which: u8 = kani::any();
    kani::assume(which < 3);
    let ns: &'static str = match which {
        0 => "/",
        1 => "/a",
        _ => "/a/b",
    };
    let mut f = Fields::new();
    f.path = Some(ObjectPath::from_static_str_unchecked(path));
    unsafe {
        FAKE_FIELDS = Some(f);
        FAKE_TYPE = Type::Signal;
    }
    let mut rule = empty_rule();
    rule.path_spec = Some(PathSpec::PathNamespace(ObjectPath::from_static_str_unchecked(ns)));
    let msg = placeholder_message();
    let r = rule.matches(&msg);
    let want = spec_in_namespace(path.as_bytes(), ns.as_bytes());
    kani::cover!(want && which == 1, "inside /a");
    kani::cover!(!want && which == 1, "outside /a");
    match &r {
        Ok(got) => assert!(*got == want, "path_namespace does not select the path itself or the paths below it"),
        Err(_) => assert!(false, "matches() failed"),
    }
    core::mem::forget((r, rule, msg));
}

/// Exact-match keys: type, interface, member, path, unique sender, destination; each present or absent
/// (symbolic), message fields present or absent, values from a two-element pool with a symbolic last character.
#[kani::proof]
#[kani::unwind(8)]
#[kani::stub(alloc::fmt::format, no_format)]
#[kani::stub(crate::message::Message::header, fake_header)]
#[kani::stub(crate::message::Message::message_type, fake_type)]
fn c21_exact_keys() {
    // message side
    let m_iface_x: bool = kani::any();
    let m_member_x: bool = kani::any();
    let m_path_x: bool = kani::any();
    let m_has_iface: bool = kani::any();
    let m_has_member: bool = kani::any();
    let m_has_path: bool = kani::any();
    let m_type_sig: bool = kani::any();
    let mut f = Fields::new();
    if m_has_iface {
        f.interface = Some(InterfaceName::from_static_str_unchecked(if m_iface_x { "a.x" } else { "a.y" }));
    }
    if m_has_member {
        f.member = Some(MemberName::from_static_str_unchecked(if m_member_x { "Mx" } else { "My" }));
    }
    if m_has_path {
        f.path = Some(ObjectPath::from_static_str_unchecked(if m_path_x { "/p/x" } else { "/p/y" }));
    }
    unsafe {
        FAKE_FIELDS = Some(f);
        FAKE_TYPE = if m_type_sig { Type::Signal } else { Type::MethodCall };
    }
    // rule side
    let r_has_type: bool = kani::any();
    let r_type_sig: bool = kani::any();
    let r_has_iface: bool = kani::any();
    let r_iface_x: bool = kani::any();
    let r_has_member: bool = kani::any();
    let r_member_x: bool = kani::any();
    let r_has_path: bool = kani::any();
    let r_path_x: bool = kani::any();
    let mut rule = empty_rule();
    if r_has_type {
        rule.msg_type = Some(if r_type_sig { Type::Signal } else { Type::MethodCall });
    }
    if r_has_iface {
        rule.interface = Some(InterfaceName::from_static_str_unchecked(if r_iface_x { "a.x" } else { "a.y" }));
    }
    if r_has_member {
        rule.member = Some(MemberName::from_static_str_unchecked(if r_member_x { "Mx" } else { "My" }));
    }
    if r_has_path {
        rule.path_spec = Some(PathSpec::Path(ObjectPath::from_static_str_unchecked(if r_path_x { "/p/x" } else { "/p/y" })));
    }
    let msg = placeholder_message();
    let r = rule.matches(&msg);
    // specification: every key present in the rule must be present in the message with an equal value
    let want = (!r_has_type || r_type_sig == m_type_sig)
        && (!r_has_iface || (m_has_iface && r_iface_x == m_iface_x))
        && (!r_has_member || (m_has_member && r_member_x == m_member_x))
        && (!r_has_path || (m_has_path && r_path_x == m_path_x));
    kani::cover!(want && r_has_iface && r_has_member && r_has_path && r_has_type, "full rule matches");
    kani::cover!(!want, "mismatch");
    match &r {
        Ok(got) => assert!(*got == want, "exact-match keys do not select exactly the messages the rule describes"),
        Err(_) => assert!(false, "matches() failed"),
    }
    core::mem::forget((r, rule, msg));
}

/// One cell of the path_namespace semantics: namespace fixed, message path = every valid object path of up to 4 bytes.
macro_rules! ns_cell {
    ($h:ident, $ns:expr) => {
        #[kani::proof]
        #[kani::unwind(7)]
        #[kani::stub(alloc::fmt::format, no_format)]
        #[kani::stub(crate::message::Message::header, fake_header)]
        #[kani::stub(crate::message::Message::message_type, fake_type)]
        fn $h() {
            let buf: [u8; 4] = kani::any();
            let len: usize = kani::any();
            kani::assume(len >= 1 && len <= 4);
            let buf: &'static [u8; 4] = Box::leak(Box::new(buf));
            kani::assume(valid_path(&buf[..len]));
            let path: &'static str = unsafe { core::str::from_utf8_unchecked(&buf[..len]) };
            let ns: &'static str = $ns;
            let mut f = Fields::new();
            f.path = Some(ObjectPath::from_static_str_unchecked(path));
            unsafe {
                FAKE_FIELDS = Some(f);
                FAKE_TYPE = Type::Signal;
            }
            let mut rule = empty_rule();
            rule.path_spec = Some(PathSpec::PathNamespace(ObjectPath::from_static_str_unchecked(ns)));
            let msg = placeholder_message();
            let r = rule.matches(&msg);
            let want = spec_in_namespace(path.as_bytes(), ns.as_bytes());
            kani::cover!(want, "inside the namespace");
            kani::cover!(!want, "outside the namespace");
            match &r {
                Ok(got) => assert!(*got == want, "path_namespace does not select the path itself or the paths below it"),
                Err(_) => assert!(false, "matches() failed"),
            }
            core::mem::forget((r, rule, msg));
        }
    };
}
ns_cell!(c21_ns_a, "/a");
